"""tools/agent_prompt.py <ID> : brief for a fresh sub-agent that seeds a property-breaking change in its own scratch worktree /tmp/wt-<ID>
(the brief contains only the property text; nothing from /verif is shown to the agent)."""
import sys
pid=sys.argv[1]
import json
prop=None
for line in open('/verif/properties.jsonl'):
    r=json.loads(line)
    if r['id']==pid:
        prop="%s — %s\n\n%s\n\nQuantifier: %s\n"%(r['id'],r['title'],r['statement'],r['quantifier']['text'])
print(f"""You are working in a scratch git worktree of the Go project Gr33nbl00d/caddy-revocation-validator at /tmp/wt-{pid} (a Caddy TLS client-auth verifier plugin that checks client-certificate revocation via OCSP and via CRLs read by a streaming ASN.1 CRL parser into memory or LevelDB storage). Work ONLY inside /tmp/wt-{pid} and /tmp/seed-{pid}. Do NOT read or touch /repo, /verif or any other directory. There is no network. For every shell call first run: export GOFLAGS=-mod=mod GOPROXY=off GOSUMDB=off GOTOOLCHAIN=local

PROPERTY (what users rely on):
{prop}
TASK: devise ONE realistic code change to the non-test Go source files (a plausible regression a developer could introduce: refactoring slip, off-by-one, missing or misplaced lock, wrong condition, swallowed error, reordered statements, stale cache, wrong key...) that BREAKS this property, such that
 (1) the project still compiles (go build ./...);
 (2) the existing test suite still passes unchanged: `go test -vet=off -count=1 ./...` (about 15 s; it leaves junk in /tmp/test-crl-dir-* and /tmp/leveldbtest*, remove that afterwards); do not edit or add *_test.go files as part of the change;
 (3) the breakage needs something SPECIFIC to manifest: a particular interleaving, a fault or crash at a particular point, a multi-step sequence of operations, an unusual input, or two cooperating sites that each look fine alone. It must NOT be something ordinary use exposes at once (e.g. do not make every lookup return 'not revoked', do not break the common path). Subtle beats blunt. (Lines calling verifhook.Hit(...) are inert instrumentation; leave them alone.)

DELIVER in /tmp/seed-{pid}/ :
 - patch.diff : `git diff` of the changed source files in the worktree; it must apply with `git apply` on a clean checkout of the same commit;
 - demo/ : a demonstration (a Go test file and/or small program, with any helper data it needs) that FAILS with the change and PASSES without it; write down exactly how to run it (e.g. copy demo/x_test.go into a package directory of the worktree and run `go test -vet=off -count=1 -run TestName ./pkg/`). Generate any certificates/CRLs it needs in code (crypto/x509, x509.CreateRevocationList etc.).
 - meta.json : {{"property":"{pid}","summary":"...","needs_to_manifest":"...","files_changed":[...],"demo_cmd":"...","demo_result_with_change":"...","demo_result_without_change":"..."}}
Verify everything yourself: with the change the build and the existing suite pass and the demo fails; without the change (git stash / git apply -R) the demo passes. When finished leave the worktree clean (`git checkout -- .` and delete untracked files you created there). Finish with a summary of at most 8 lines.""")
