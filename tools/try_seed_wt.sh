#!/bin/bash
# tools/try_seed_wt.sh <ID> <check-ID>... : run quick checks against the agent's scratch worktree /tmp/wt-<ID> with
# /tmp/seed-<ID>/patch.diff applied there (development aid; /repo is not touched, see VERIF_REPO in ./check)
ID=$1; shift
WT=/tmp/wt-$ID
git -C $WT checkout -q -- . ; git -C $WT clean -fdq
git -C $WT apply /tmp/seed-$ID/patch.diff || { echo "patch does not apply"; exit 9; }
for c in "$@"; do
  echo "--- $c vs seed-$ID (worktree)"
  VERIF_REPO=$WT /verif/check $c quick 2>&1 | grep -E "^VIOLATION|^  key=|^SUMMARY|^INCONCL|^NOTE|KNOWN" | cut -c1-260 | head -${LINES_MAX:-6}
done
git -C $WT checkout -q -- . ; git -C $WT clean -fdq
