#!/usr/bin/env python3
"""tools/keep_seed.py <ID> <name> <caught_by comma list> <missed_by comma list> [ported_patch] : store a confirmed agent seed under /verif/seeded/<name>/"""
import json, os, shutil, sys
pid, name, caught, missed = sys.argv[1:5]
ported = sys.argv[5] if len(sys.argv) > 5 else None
src = f"/tmp/seed-{pid}"; dst = f"/verif/seeded/{name}"
os.makedirs(dst, exist_ok=True)
shutil.copy(f"{src}/patch.diff", f"{dst}/patch.orig.diff" if ported else f"{dst}/patch.diff")
if ported: shutil.copy(ported, f"{dst}/patch.diff")
if os.path.isdir(f"{dst}/demo"): shutil.rmtree(f"{dst}/demo")
shutil.copytree(f"{src}/demo", f"{dst}/demo")
m = json.load(open(f"{src}/meta.json"))
m["origin"] = "independent sub-agent given only the property text and a scratch worktree"
import subprocess
m["base_commit_of_patch_orig"] = subprocess.check_output(["git","-C","/repo","rev-parse","--short","HEAD"]).decode().strip()
m["confirmed_by"] = "tools/confirm_seed.sh in the agent's scratch worktree: build + unchanged suite pass with the change, demo fails with it and passes without it"
m["checks_run"] = f"tools/try_seed.sh seeded/{name}/patch.diff <IDs> (quick tier)"
m["caught_by"] = [c for c in caught.split(",") if c]
m["missed_by_at_first"] = [c for c in missed.split(",") if c]
if ported: m["note"] = "patch.diff is the same change ported to the current HEAD of /repo (later fix commits touched the same function); patch.orig.diff is the agent's diff"
json.dump(m, open(f"{dst}/meta.json", "w"), indent=1)
print("kept", dst)
