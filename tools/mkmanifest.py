#!/usr/bin/env python3
"""Regenerates /verif/MANIFEST.json from the table below (single source of truth)."""
import json, os, subprocess
ROOT = os.path.dirname(os.path.dirname(os.path.abspath(__file__)))

# id -> (level, technique, level text, level note, design ref)
CHECKS = {}
def claim(pid, level, technique, text, note, ref):
    CHECKS[pid] = dict(level=level, technique=technique, text=text, note=note, ref=ref)

exec(open(os.path.join(ROOT, "tools", "claims.py")).read())

props = [json.loads(l)["id"] for l in open(os.path.join(ROOT, "properties.jsonl"))]
hook_commits = subprocess.run(["git", "-C", "/repo", "log", "--format=%H %s"], capture_output=True, text=True).stdout.splitlines()
hook_commits = [l.split()[0] for l in hook_commits if " verif hooks:" in l]

m = {
    "version": 1,
    "setup_cmd": "./check --build-all",
    "hooks": {
        "guard": "verif",
        "enable": "go build -tags verif (engines under /verif/harness/cmd/* are built by ./check with -tags verif against /repo's working tree via a replace directive)",
        "baseline_off_cmd": "cd /repo && GOFLAGS=-mod=mod GOPROXY=off GOSUMDB=off GOTOOLCHAIN=local go test -vet=off -count=1 ./...",
        "source_commits": hook_commits[::-1],
        "add_only": True,
    },
    "engines": [],
    "checks": [],
    "not_applicable": [],
    "notes": "Runtime monitoring only: real code under hostile workloads, oracles over observed executions (Go race detector, crash/exit monitors, strace, reference decoders/models, porcupine). Known findings: /verif/KNOWN_FINDINGS.txt. See DESIGN.md.",
}
for pid in props:
    if pid in CHECKS:
        c = CHECKS[pid]
        m["checks"].append({
            "property_id": pid,
            "quick_cmd": f"./check {pid} quick",
            "thorough_cmd": f"./check {pid} thorough",
            "evidence_file": f"/verif/evidence/{pid}.json",
            "replay_cmd_template": f"./check {pid} --replay {{path}}",
            "engine": pid.lower(),
            "level_claimed": {"category": c["level"], "text": c["text"], "design_ref": c["ref"]},
            "level_note": c["note"],
            "technique": c["technique"],
        })
        m["engines"].append({"name": pid.lower(), "path": f"harness/cmd/{pid.lower()}", "serves_properties": [pid], "kind_free_text": c["technique"]})
    else:
        reason = NOT_CLAIMED.get(pid, "check not built yet in this tree; no verdict is claimed for this property")
        m["not_applicable"].append({"property_id": pid, "reason": reason})
json.dump(m, open(os.path.join(ROOT, "MANIFEST.json"), "w"), indent=1)
print("claimed:", [c["property_id"] for c in m["checks"]])
