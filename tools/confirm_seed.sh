#!/bin/bash
# tools/confirm_seed.sh <ID> <pkgdir> <test-regex> [go test flags...] : confirm an agent's seed in its own scratch worktree
# (build + existing suite pass with the change, demo fails with it and passes without it)
set -u
ID=$1; PKG=$2; RE=$3; shift 3
export GOFLAGS=-mod=mod GOPROXY=off GOSUMDB=off GOTOOLCHAIN=local
WT=/tmp/wt-$ID; SEED=/tmp/seed-$ID
cd $WT || exit 1
git checkout -q -- . ; git clean -fdq
cp $SEED/demo/*_test.go $PKG/
echo "[without change] demo:"; go test "$@" -vet=off -count=1 -run "$RE" ./$PKG/ 2>&1 | tail -3
git apply $SEED/patch.diff || { echo "patch does not apply"; exit 1; }
echo "[with change] build:"; go build ./... && echo ok
echo "[with change] demo:"; go test "$@" -vet=off -count=1 -run "$RE" ./$PKG/ 2>&1 | grep -E "^(--- FAIL|FAIL|ok|panic|fatal)" | head -5
for f in $SEED/demo/*_test.go; do rm -f $PKG/$(basename $f); done
echo "[with change] existing suite:"; go test -vet=off -count=1 ./... 2>&1 | grep -v "no test files" | grep -v "^ok" | head -5; echo "(suite done)"
git checkout -q -- . ; git clean -fdq; rm -rf /tmp/test-crl-dir-* /tmp/leveldbtest*
