#!/bin/bash
# tools/eval_round.sh <ID>... : for agent seeds in /tmp/seed-<ID> (worktree /tmp/wt-<ID>): confirm (build + suite pass with
# the change, demo fails with it and passes without it), then try the property's own quick check against the worktree.
cd /verif
for ID in "$@"; do
  m=/tmp/seed-$ID/meta.json
  [ -f $m ] || { echo "== $ID: no meta.json"; continue; }
  read -r pkg re < <(python3 - "$m" <<'PY'
import json,re,sys,shlex
cmd=json.load(open(sys.argv[1])).get('demo_cmd','')
toks=shlex.split(cmd.replace(';',' ; ').replace('&&',' && '), posix=True)
rx='Test'; pkg='.'
for i,t in enumerate(toks):
    if t=='-run' and i+1<len(toks): rx=toks[i+1]
for t in toks:
    if re.fullmatch(r'\./[\w/]*/?',t) or t=='.': pkg=t.strip('/').lstrip('./') or '.'
    if re.fullmatch(r'\./\.\.\.',t): pass
print(pkg if pkg else '.', rx)
PY
)
  echo "== $ID  pkg=$pkg  run=$re"
  tools/confirm_seed.sh $ID "$pkg" "$re" 2>&1 | grep -v DEBUG | grep -E "^\[|^ok|^--- FAIL|^FAIL|patch does|found packages|no test files" | tr '\n' ' '; echo
  tools/try_seed_wt.sh $ID $ID 2>&1 | cut -c1-230 | head -4
done
