#!/bin/bash
# tools/seed_matrix.sh [name-prefix...] : run every kept seeded change against the quick tier of the check(s) recorded as
# catching it, and write the outcome to seeded/MATRIX.txt ("caught" = the check printed a VIOLATION line).
# Never run anything else against /repo while this runs (it patches /repo's working tree and restores it).
cd /verif
declare -A M=( [m-ocsp-cache-subject-key]=C14 [m-ocsp-cache-sliding-expiry]=C14 [m-swap-without-lock]=C13 [m-failed-verify-drops-previous]=C08
  [m-ocsp-cache-pointer-race]=C13 [m-reader-retains-entries]=C17 [m-urlloader-buffers-body]=C17 [m-cleanup-leaks-ticker-goroutine]=C20 )
out=seeded/MATRIX.txt; tmp=$(mktemp)
for d in seeded/*/; do
  n=$(basename $d)
  if [ $# -gt 0 ]; then ok=0; for p in "$@"; do [[ $n == $p* ]] && ok=1; done; [ $ok = 1 ] || continue; fi
  ids=""
  if [ -f $d/meta.json ] && [ "$(jq -r '.neutralised_by_fix // empty' $d/meta.json)" != "" ]; then
    echo "$n	-	neutralised by fix $(jq -r '.neutralised_by_fix' $d/meta.json) (no longer breaks the property; see meta.json)" | tee -a $tmp; continue
  fi
  if [ -f $d/meta.json ]; then ids=$(jq -r '.caught_by[]' $d/meta.json | tr '\n' ' ')
  elif [[ $n == revert-* ]]; then ids=$(grep "^fixed: property=" KNOWN_FINDINGS.txt | grep " ${n#revert-} " | sed 's/.*property=\(C[0-9]*\).*/\1/')
  else ids=${M[$n]:-}; fi
  for id in $ids; do
    res=$(tools/with_patch.sh $d/patch.diff ./check $id quick 2>&1)
    if echo "$res" | grep -q "does not apply"; then v="PATCH-DOES-NOT-APPLY"
    elif echo "$res" | grep -q "^VIOLATION property=$id"; then v="caught ($(echo "$res" | grep -c '^VIOLATION') violation keys; first: $(echo "$res" | grep -m1 '^  key=' | cut -c7-120))"
    else v="MISSED"; fi
    echo "$n	$id	$v" | tee -a $tmp
  done
done
if [ $# -gt 0 ] && [ -f $out ]; then
  # partial run: keep the rows of the seeds that were not re-run
  pat=$(printf '^%s|' "$@"); pat=${pat%|}
  grep -v "^#" $out | grep -Ev "$pat" > $tmp.keep; cat $tmp >> $tmp.keep; sort $tmp.keep > $tmp; rm -f $tmp.keep
fi
{ echo "# seed	check	outcome (quick tier, seed 1) — written by tools/seed_matrix.sh on /repo $(git -C /repo rev-parse --short HEAD)"; cat $tmp; } > $out; rm -f $tmp
