#!/bin/bash
# tools/try_seed.sh <patch.diff> <ID> [<ID>...]  — run the quick checks of the given properties against a seeded change
P="$(realpath "$1")"; shift
for id in "$@"; do
  echo "--- $id vs $(basename $(dirname $P))"
  /verif/tools/with_patch.sh "$P" ./check $id quick 2>&1 | grep -E "^VIOLATION|^  key=|^SUMMARY|^INCONCL|^NOTE|with_patch|KNOWN" | cut -c1-240 | head -${LINES_MAX:-6}
done
