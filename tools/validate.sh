#!/bin/bash
# validates MANIFEST.json and every evidence file against the schemas
cd "$(dirname "$0")/.."
python3-vt - <<'PY'
import json, jsonschema, glob
jsonschema.validate(json.load(open('MANIFEST.json')), json.load(open('/root/.vp/MANIFEST.schema.json')))
print('MANIFEST ok')
es = json.load(open('/root/.vp/EVIDENCE.schema.json'))
for f in sorted(glob.glob('evidence/*.json')):
    try:
        jsonschema.validate(json.load(open(f)), es); print(f, 'ok')
    except Exception as e:
        print(f, 'INVALID', str(e)[:300])
PY
