import sys
pid=sys.argv[1]
avoid={
 'C01':'changing the kind of lock taken around the store swap during a refresh; making the location identifier ignore the URL query string; deferring the re-open of the database after a failed swap',
 'C06':'re-using one decoded entry struct for all entries (stale extensions); reading the long-form length octets with a single Read call; passing the parse state by value so that the byte count of the version field is lost',
 'C07':'comparing big length values after narrowing them to int64; skipping the AlgorithmIdentifier with an unbounded read; dereferencing a nil serial of an AKI with authorityCertIssuer only',
 'C08':'releasing the entry lock before the store is read; or taking a read lock for the swap; or making the memory store merge instead of replace; deleting the store by identifier path instead of its own path; leaving the entry loop with break on an insert error and returning the outer nil error',
 'C10':'changing what the disk store regards as empty; TryRLock in the strict gate; marking the entry loaded before the store swap',
 'C11':'accepting the critical issuingDistributionPoint extension; or making the memory store merge on replace; building the store key from serial.Bytes() (sign lost); stripping the end entity only when its basic constraints are valid',
 'C13':'downgrading a write lock to a read lock in AddCRL; holding the repository read lock across the lookup loop (nested RLock); calling R.isClosed() (repository lock) while holding the entry lock',
 'C18':'making MapStore.Update merge into the old map; caching the parsed signer certificate in the LevelDB store across Update; making the disk store first-write-wins on re-insert',
 'C02':'gating the strict-mode rejection on the transport error variable; caching a copy of the status taken before the revoked flag is set; reading the OCSP response body with a single Read call',
 'C03':'sharing one status/err pair between the OCSP and the CRL check; skipping all checks for single-element verified chains; requiring a transport error for the strict branch',
 'C05':'replacing the explicit OCSPSigning EKU test by x509 Verify with KeyUsages; identifying the issuer certificate by subject name plus key identifier; a fallback ParseResponse without issuer',
 'C09':'re-opening the LevelDB database in a deferred function after a failed update; overwriting the error of an earlier CRL in the lookup loop; treating a zero-length stored record as missing',
 'C14':'truncating the serial number to int64 in the cache key; computing the cache lifetime from thisUpdate instead of now; deriving expiry from the cache item AccessedOn time',
 'C16':'assigning the function-level err in the verify_log branch of the refresh; swallowing the UpdateCRL error for already loaded entries at provisioning; skipping verification when chains are nil on a retried first load',
 'C12':'changing what the disk store regards as empty; returning SkipDir for regular files in the startup sweep; swapping the staged store in before the signature check',
 'C15':'using TryLock on the process-wide update mutex for periodic passes; skipping the synchronous load of configured CRLs when AddCRL reports added; releasing entry.Chains after a failed first load',
 'C17':'using ReadString for the PEM sniffing of the first line; dumping the HTTP response body when debug logging is enabled; buffering the body when Content-Length is announced',
 'C19':'adding a non-strict UnmarshalJSON to a config struct; parsing crl_config only when the mode enables CRL checking; Caddyfile list options appended to the wrong list',
 'C20':'dropping the named error result so that the deferred cleanup of the staged store is skipped; assigning crlConfig before the work_dir registration so that a rejected validator deregisters the owner; returning SkipDir for every direct child in the startup sweep',
 'C04':'letting skipped candidates (without cRLSign) count as verified; keeping an end entity without basicConstraints as signer candidate; letting an empty AKI keyIdentifier match certificates without SKI',
}
base=open('/tmp/agent-prompt-%s.txt'%pid).read() if False else None
import subprocess
txt=subprocess.run(['python3','/verif/tools/agent_prompt.py',pid],capture_output=True,text=True).stdout
txt=txt.replace('DELIVER in', "ALREADY TAKEN (choose a DIFFERENT mechanism and a different code region if you can): %s.\nPrefer a region of the code base that is NOT the most obvious one for this property — helper and plumbing code such as core/utils, core/hashing, core/asn1parser, core (chains, locations), crl/crlloader (file, URL and multi-scheme loaders), the serializer in crl/crlstore, config parsing/validation, the OCSP checker's request building and HTTP handling — whenever a change there can break the property.\n\nDELIVER in"%avoid[pid])
print(txt)
