#!/bin/bash
# tools/sweep.sh <tier> <seed...> : run every registered check at the given seeds (evidence untouched), print one line per run
TIER=$1; shift
cd "$(dirname "$0")/.."
for seed in "$@"; do
  for id in C01 C02 C03 C04 C05 C06 C07 C08 C09 C10 C11 C12 C13 C14 C15 C16 C17 C18 C19 C20; do
    t0=$(date +%s)
    out=$(VERIF_SEED=$seed VERIF_NO_EVIDENCE=1 ./check $id $TIER 2>&1); rc=$?
    t1=$(date +%s)
    echo "seed=$seed $id rc=$rc $((t1-t0))s $(echo "$out" | grep -E '^SUMMARY' | sed 's/SUMMARY property=[A-Z0-9]* //')"
    if [ $rc -ne 0 ]; then echo "$out" | grep -E "^VIOLATION|^  key=|^INCONCL|^NOTE" | cut -c1-300 | head -8; fi
  done
done
