#!/bin/bash
# tools/with_patch.sh <patch.diff> <command...>
# Applies a patch to /repo's working tree, runs the command (from /verif), and always restores
# the working tree afterwards. Evidence files are not touched (VERIF_NO_EVIDENCE=1).
set -u
P="$(realpath "$1")"; shift
cd /verif
if [ -n "$(git -C /repo status --porcelain)" ]; then echo "with_patch: /repo is not clean"; exit 9; fi
git -C /repo apply "$P" || { echo "with_patch: patch does not apply"; exit 9; }
VERIF_NO_EVIDENCE=1 "$@"
rc=$?
git -C /repo checkout -- . && git -C /repo clean -fdq
exit $rc
