# table of claimed checks; exec'd by mkmanifest.py
NOT_CLAIMED = {}
