// Package pki builds certificate authorities, leaves and keys for the harness.
package pki

import (
	"crypto"
	"crypto/ecdsa"
	"crypto/ed25519"
	"crypto/elliptic"
	"crypto/rand"
	"crypto/rsa"
	"crypto/sha1"
	"crypto/x509"
	"crypto/x509/pkix"
	"encoding/asn1"
	"encoding/pem"
	"fmt"
	"math/big"
	"os"
	"sync"
	"time"
)

var (
	rsaMu   sync.Mutex
	rsaPool []*rsa.PrivateKey
)

// RSAKey returns the i-th RSA-2048 key of a per-process pool (generated lazily).
func RSAKey(i int) *rsa.PrivateKey {
	rsaMu.Lock()
	defer rsaMu.Unlock()
	for len(rsaPool) <= i {
		k, err := rsa.GenerateKey(rand.Reader, 2048)
		if err != nil {
			panic(err)
		}
		rsaPool = append(rsaPool, k)
	}
	return rsaPool[i]
}

func ECKey(curve string) *ecdsa.PrivateKey {
	var c elliptic.Curve
	switch curve {
	case "P384":
		c = elliptic.P384()
	case "P521":
		c = elliptic.P521()
	default:
		c = elliptic.P256()
	}
	k, err := ecdsa.GenerateKey(c, rand.Reader)
	if err != nil {
		panic(err)
	}
	return k
}

func EdKey() ed25519.PrivateKey {
	_, k, err := ed25519.GenerateKey(rand.Reader)
	if err != nil {
		panic(err)
	}
	return k
}

// CA is a certificate authority (or any certificate with its key).
type CA struct {
	Cert *x509.Certificate
	Key  crypto.Signer
}

var serialCounter = big.NewInt(time.Now().UnixNano() & 0xffffffff)
var serialMu sync.Mutex

// NextSerial returns a process-unique positive serial.
func NextSerial() *big.Int {
	serialMu.Lock()
	defer serialMu.Unlock()
	serialCounter = new(big.Int).Add(serialCounter, big.NewInt(1))
	return new(big.Int).Set(serialCounter)
}

// CertOpts describes a certificate to be issued.
type CertOpts struct {
	CN                 string
	RawSubject         []byte // overrides CN when set
	Serial             *big.Int
	Key                crypto.Signer // generated (P-256) when nil
	IsCA               bool
	KeyUsage           x509.KeyUsage // 0 => default for the role
	NoKeyUsage         bool          // omit the KeyUsage extension completely
	ExtKeyUsage        []x509.ExtKeyUsage
	CDP                []string
	OCSP               []string
	DNSNames           []string
	SKI                []byte // overrides the computed subject key identifier
	NoBasicConstraints bool   // omit the basicConstraints extension
	NoSKI              bool
	NoAKI              bool
	// AKIForm selects the authorityKeyIdentifier of an issued certificate: "" = keyIdentifier only
	// (what Go emits), "long" = keyIdentifier + authorityCertIssuer + authorityCertSerialNumber (OpenSSL
	// keyid,issuer:always), "issuer-serial" = the latter two only, "uri-serial" = a URI as
	// authorityCertIssuer + serial, "keyid-mismatch" = a keyIdentifier no certificate has. NoAKI omits
	// the extension.
	AKIForm   string
	NotBefore time.Time
	NotAfter  time.Time
	SigAlg    x509.SignatureAlgorithm
}

func ski(pub crypto.PublicKey) []byte {
	b, err := x509.MarshalPKIXPublicKey(pub)
	if err != nil {
		panic(err)
	}
	var spki struct {
		Alg pkix.AlgorithmIdentifier
		Key asn1.BitString
	}
	if _, err := asn1.Unmarshal(b, &spki); err != nil {
		panic(err)
	}
	h := sha1.Sum(spki.Key.Bytes)
	return h[:]
}

func template(o CertOpts) (*x509.Certificate, crypto.Signer) {
	key := o.Key
	if key == nil {
		key = ECKey("P256")
	}
	serial := o.Serial
	if serial == nil {
		serial = NextSerial()
	}
	nb, na := o.NotBefore, o.NotAfter
	if nb.IsZero() {
		nb = time.Now().Add(-time.Hour)
	}
	if na.IsZero() {
		na = time.Now().Add(24 * time.Hour)
	}
	t := &x509.Certificate{
		SerialNumber:          serial,
		Subject:               pkix.Name{CommonName: o.CN},
		RawSubject:            o.RawSubject,
		NotBefore:             nb,
		NotAfter:              na,
		BasicConstraintsValid: !o.NoBasicConstraints,
		IsCA:                  o.IsCA,
		ExtKeyUsage:           o.ExtKeyUsage,
		CRLDistributionPoints: o.CDP,
		OCSPServer:            o.OCSP,
		DNSNames:              o.DNSNames,
		SignatureAlgorithm:    o.SigAlg,
	}
	if !o.NoSKI {
		t.SubjectKeyId = ski(key.Public())
		if o.SKI != nil {
			t.SubjectKeyId = o.SKI
		}
	}
	if !o.NoKeyUsage {
		t.KeyUsage = o.KeyUsage
		if t.KeyUsage == 0 {
			if o.IsCA {
				t.KeyUsage = x509.KeyUsageCertSign | x509.KeyUsageCRLSign | x509.KeyUsageDigitalSignature
			} else {
				t.KeyUsage = x509.KeyUsageDigitalSignature
			}
		}
	}
	return t, key
}

// NewRoot creates a self-signed CA.
func NewRoot(o CertOpts) *CA {
	o.IsCA = true
	t, key := template(o)
	der, err := x509.CreateCertificate(rand.Reader, t, t, key.Public(), key)
	if err != nil {
		panic(fmt.Sprintf("pki: root: %v", err))
	}
	c, err := x509.ParseCertificate(der)
	if err != nil {
		panic(err)
	}
	return &CA{Cert: c, Key: key}
}

// Issue creates a certificate signed by ca.
func (ca *CA) Issue(o CertOpts) *CA {
	t, key := template(o)
	parent := ca.Cert
	if o.NoAKI {
		// CreateCertificate copies parent.SubjectKeyId into AKI; use a shallow copy without it
		cp := *ca.Cert
		cp.SubjectKeyId = nil
		parent = &cp
	}
	if o.AKIForm != "" && !o.NoAKI {
		t.ExtraExtensions = append(t.ExtraExtensions, pkix.Extension{Id: asn1.ObjectIdentifier{2, 5, 29, 35}, Value: AKIValue(o.AKIForm, ca.Cert)})
	}
	der, err := x509.CreateCertificate(rand.Reader, t, parent, key.Public(), ca.Key)
	if err != nil {
		panic(fmt.Sprintf("pki: issue: %v", err))
	}
	c, err := x509.ParseCertificate(der)
	if err != nil {
		panic(fmt.Sprintf("pki: parse issued: %v", err))
	}
	return &CA{Cert: c, Key: key}
}

// AKIValue builds the value of an authorityKeyIdentifier extension naming issuer in the given form.
func AKIValue(form string, issuer *x509.Certificate) []byte {
	tlv := func(tag byte, content []byte) []byte {
		var l []byte
		switch n := len(content); {
		case n < 128:
			l = []byte{byte(n)}
		case n < 256:
			l = []byte{0x81, byte(n)}
		default:
			l = []byte{0x82, byte(n >> 8), byte(n)}
		}
		return append(append([]byte{tag}, l...), content...)
	}
	serial := issuer.SerialNumber.Bytes()
	if len(serial) == 0 || serial[0]&0x80 != 0 {
		serial = append([]byte{0}, serial...)
	}
	var parts []byte
	if form == "keyid-mismatch" {
		// a key identifier that no certificate carries (the CA was re-issued with another identifier)
		return tlv(0x30, tlv(0x80, []byte("no-such-key-identifier")))
	}
	if form == "long" {
		parts = append(parts, tlv(0x80, issuer.SubjectKeyId)...)
	}
	switch form {
	case "long", "issuer-serial":
		parts = append(parts, tlv(0xa1, tlv(0xa4, issuer.RawIssuer))...)
	case "uri-serial":
		parts = append(parts, tlv(0xa1, tlv(0x86, []byte("http://ca.example.org/issuer")))...)
	}
	parts = append(parts, tlv(0x82, serial)...)
	return tlv(0x30, parts)
}

// LeafAKI is Leaf with a chosen authorityKeyIdentifier form.
func (ca *CA) LeafAKI(serial *big.Int, cdp []string, ocsp []string, akiForm string) *x509.Certificate {
	return ca.Issue(CertOpts{CN: "leaf " + serial.String(), Serial: serial, CDP: cdp, OCSP: ocsp, AKIForm: akiForm}).Cert
}

// Leaf is a convenience for an end-entity certificate.
func (ca *CA) Leaf(serial *big.Int, cdp []string, ocsp []string) *x509.Certificate {
	return ca.Issue(CertOpts{CN: "leaf " + serial.String(), Serial: serial, CDP: cdp, OCSP: ocsp}).Cert
}

// Chain builds a verified-chain slice leaf..root.
func Chain(leaf *x509.Certificate, cas ...*CA) []*x509.Certificate {
	c := []*x509.Certificate{leaf}
	for _, ca := range cas {
		c = append(c, ca.Cert)
	}
	return c
}

// WritePEM writes a certificate as PEM and returns the path.
func WritePEM(path string, cert *x509.Certificate) string {
	b := pem.EncodeToMemory(&pem.Block{Type: "CERTIFICATE", Bytes: cert.Raw})
	if err := os.WriteFile(path, b, 0600); err != nil {
		panic(err)
	}
	return path
}
