// Package der is a tiny TLV-level DER writer used by the generators. It is
// deliberately independent of encoding/asn1 marshalling and of the repository's
// asn1parser so that generated documents are known byte by byte.
package der

import (
	"fmt"
	"math/big"
	"strconv"
	"strings"
	"time"
)

const (
	TagBoolean     = 0x01
	TagInteger     = 0x02
	TagBitString   = 0x03
	TagOctetString = 0x04
	TagNull        = 0x05
	TagOID         = 0x06
	TagEnumerated  = 0x0a
	TagUTF8String  = 0x0c
	TagSequence    = 0x30
	TagSet         = 0x31
	TagPrintable   = 0x13
	TagIA5String   = 0x16
	TagUTCTime     = 0x17
	TagGeneralized = 0x18
)

// Len encodes a definite length in minimal form.
func Len(n int) []byte {
	if n < 0x80 {
		return []byte{byte(n)}
	}
	var b []byte
	for v := n; v > 0; v >>= 8 {
		b = append([]byte{byte(v)}, b...)
	}
	return append([]byte{0x80 | byte(len(b))}, b...)
}

// TLV builds tag || length || concatenated content parts.
func TLV(tag byte, parts ...[]byte) []byte {
	n := 0
	for _, p := range parts {
		n += len(p)
	}
	out := make([]byte, 0, n+6)
	out = append(out, tag)
	out = append(out, Len(n)...)
	for _, p := range parts {
		out = append(out, p...)
	}
	return out
}

// Header returns tag||length for a content of n bytes.
func Header(tag byte, n int) []byte {
	return append([]byte{tag}, Len(n)...)
}

func Seq(parts ...[]byte) []byte { return TLV(TagSequence, parts...) }
func Set(parts ...[]byte) []byte { return TLV(TagSet, parts...) }

// Int encodes a big integer in minimal two's complement form.
func Int(v *big.Int) []byte { return TLV(TagInteger, IntContent(v)) }

func IntContent(v *big.Int) []byte {
	if v.Sign() == 0 {
		return []byte{0}
	}
	if v.Sign() > 0 {
		b := v.Bytes()
		if b[0]&0x80 != 0 {
			b = append([]byte{0}, b...)
		}
		return b
	}
	// negative: two's complement
	n := new(big.Int).Neg(v)
	n.Sub(n, big.NewInt(1))
	b := n.Bytes()
	for i := range b {
		b[i] ^= 0xff
	}
	if len(b) == 0 || b[0]&0x80 == 0 {
		b = append([]byte{0xff}, b...)
	}
	return b
}

func SmallInt(v int64) []byte { return Int(big.NewInt(v)) }

func Bool(v bool) []byte {
	if v {
		return []byte{TagBoolean, 1, 0xff}
	}
	return []byte{TagBoolean, 1, 0}
}

func Null() []byte { return []byte{TagNull, 0} }

func Octets(b []byte) []byte { return TLV(TagOctetString, b) }

// Bits encodes a BIT STRING with zero unused bits.
func Bits(b []byte) []byte { return TLV(TagBitString, []byte{0}, b) }

func Enumerated(v int) []byte { return []byte{TagEnumerated, 1, byte(v)} }

// OID encodes a dotted object identifier.
func OID(dotted string) []byte {
	parts := strings.Split(dotted, ".")
	arcs := make([]uint64, len(parts))
	for i, p := range parts {
		v, err := strconv.ParseUint(p, 10, 64)
		if err != nil {
			panic(fmt.Sprintf("der: bad oid %q", dotted))
		}
		arcs[i] = v
	}
	var c []byte
	c = appendBase128(c, arcs[0]*40+arcs[1])
	for _, a := range arcs[2:] {
		c = appendBase128(c, a)
	}
	return TLV(TagOID, c)
}

func appendBase128(dst []byte, v uint64) []byte {
	var tmp []byte
	tmp = append(tmp, byte(v&0x7f))
	for v >>= 7; v > 0; v >>= 7 {
		tmp = append([]byte{byte(v&0x7f) | 0x80}, tmp...)
	}
	return append(dst, tmp...)
}

func UTCTime(t time.Time) []byte {
	return TLV(TagUTCTime, []byte(t.UTC().Format("060102150405Z")))
}

func GeneralizedTime(t time.Time) []byte {
	return TLV(TagGeneralized, []byte(t.UTC().Format("20060102150405Z")))
}

// Explicit wraps content in a constructed context-specific tag [n].
func Explicit(n int, parts ...[]byte) []byte { return TLV(0xa0|byte(n), parts...) }

// Implicit primitive context-specific tag [n].
func ImplicitPrim(n int, content []byte) []byte { return TLV(0x80|byte(n), content) }

func Str(tag byte, s string) []byte { return TLV(tag, []byte(s)) }

// AlgID builds AlgorithmIdentifier with optional NULL parameters.
func AlgID(oid string, withNull bool) []byte {
	if withNull {
		return Seq(OID(oid), Null())
	}
	return Seq(OID(oid))
}

// Ext builds an Extension.
func Ext(oid string, critical bool, value []byte) []byte {
	if critical {
		return Seq(OID(oid), Bool(true), Octets(value))
	}
	return Seq(OID(oid), Octets(value))
}

// ATV is one AttributeTypeAndValue of a name.
type ATV struct {
	OID   string
	Tag   byte
	Value string
}

// Name builds an RDNSequence; each inner slice is one (possibly multi-valued) RDN.
func Name(rdns ...[]ATV) []byte {
	var sets [][]byte
	for _, rdn := range rdns {
		var atvs [][]byte
		for _, a := range rdn {
			atvs = append(atvs, Seq(OID(a.OID), Str(a.Tag, a.Value)))
		}
		// DER SET OF ordering: sort by encoding
		for i := 1; i < len(atvs); i++ {
			for j := i; j > 0 && string(atvs[j-1]) > string(atvs[j]); j-- {
				atvs[j-1], atvs[j] = atvs[j], atvs[j-1]
			}
		}
		sets = append(sets, Set(atvs...))
	}
	return Seq(sets...)
}

// Node is one TLV of a parsed DER document.
type Node struct {
	Tag      byte
	Off      int // offset of the tag in the document
	HdrLen   int
	Len      int // content length
	Children []*Node
	Path     string // e.g. "0.3.1"
}

// Parse builds the TLV tree of a well-formed DER document (constructed nodes are descended;
// OCTET/BIT STRING contents are not).
func Parse(doc []byte) (*Node, error) {
	n, used, err := parseAt(doc, 0, "0")
	if err != nil {
		return nil, err
	}
	if used != len(doc) {
		return nil, fmt.Errorf("der: trailing bytes")
	}
	return n, nil
}

func parseAt(doc []byte, off int, path string) (*Node, int, error) {
	if off+2 > len(doc) {
		return nil, 0, fmt.Errorf("der: short")
	}
	tag := doc[off]
	lb := doc[off+1]
	hdr := 2
	l := 0
	if lb&0x80 == 0 {
		l = int(lb)
	} else {
		nb := int(lb & 0x7f)
		if nb == 0 || nb > 4 || off+2+nb > len(doc) {
			return nil, 0, fmt.Errorf("der: bad length")
		}
		for i := 0; i < nb; i++ {
			l = l<<8 | int(doc[off+2+i])
		}
		hdr += nb
	}
	if off+hdr+l > len(doc) {
		return nil, 0, fmt.Errorf("der: length beyond data")
	}
	n := &Node{Tag: tag, Off: off, HdrLen: hdr, Len: l, Path: path}
	if tag&0x20 != 0 {
		p := off + hdr
		i := 0
		for p < off+hdr+l {
			c, used, err := parseAt(doc, p, fmt.Sprintf("%s.%d", path, i))
			if err != nil {
				return nil, 0, err
			}
			n.Children = append(n.Children, c)
			p += used
			i++
		}
	}
	return n, hdr + l, nil
}

// Walk visits every node.
func (n *Node) Walk(f func(*Node)) {
	f(n)
	for _, c := range n.Children {
		c.Walk(f)
	}
}

// Rebuild re-serialises the tree; edit may return a replacement encoding for a node (whole TLV)
// or nil to keep descending. Parent lengths are recomputed, so the result is consistent except
// for what edit itself produced.
func (n *Node) Rebuild(doc []byte, edit func(*Node) []byte) []byte {
	if r := edit(n); r != nil {
		return r
	}
	if len(n.Children) == 0 {
		return append([]byte(nil), doc[n.Off:n.Off+n.HdrLen+n.Len]...)
	}
	var parts [][]byte
	for _, c := range n.Children {
		parts = append(parts, c.Rebuild(doc, edit))
	}
	return TLV(n.Tag, parts...)
}
