// Package sut drives the validator at its top-level API (L3) the way Caddy does:
// Provision through a caddy.Context, VerifyClientCertificate, Cleanup.
package sut

import (
	"context"
	"crypto/x509"
	"os"
	"strings"
	"syscall"

	"github.com/caddyserver/caddy/v2"
	revocation "github.com/gr33nbl00d/caddy-revocation-validator"
	"github.com/gr33nbl00d/caddy-revocation-validator/config"
)

// QuietStderr redirects file descriptor 2 to the given file (the validator logs through a
// zap development logger bound to stderr). Returns the path.
func QuietStderr(path string) {
	// worker processes get a file of their own (shard 3 of 8: <path>.shard3), so that a crash trace
	// of one worker can be found and attributed by the parent
	if sh := os.Getenv("VERIF_SHARD"); sh != "" {
		if i := strings.Index(sh, "/"); i > 0 {
			path += ".shard" + sh[:i]
		}
	}
	f, err := os.OpenFile(path, os.O_CREATE|os.O_WRONLY|os.O_APPEND, 0644)
	if err != nil {
		return
	}
	_ = syscall.Dup2(int(f.Fd()), 2)
}

// Config is the validator configuration in its JSON-level (string) form.
type Config struct {
	Mode string
	CRL  *config.CRLConfig
	OCSP *config.OCSPConfig
}

// V is a provisioned validator.
type V struct {
	Val    *revocation.CertRevocationValidator
	cancel context.CancelFunc
	done   bool
}

// CRLCfg builds a CRL config.
func CRLCfg(workDir, storage, sigMode, fetchMode string, strict bool, interval string) *config.CRLConfig {
	return &config.CRLConfig{
		WorkDir:                 workDir,
		StorageType:             storage,
		SignatureValidationMode: sigMode,
		UpdateInterval:          interval,
		CDPConfig:               &config.CDPConfig{CRLFetchMode: fetchMode, CRLCDPStrict: strict},
	}
}

// Provision creates and provisions a validator. On error the partially provisioned validator is
// cleaned up the way Caddy does (Cleanup is called by the context's cancel function only for
// modules loaded through it; here we call it directly).
func Provision(c Config) (*V, error) {
	val := &revocation.CertRevocationValidator{Mode: c.Mode, CRLConfig: c.CRL, OCSPConfig: c.OCSP}
	ctx, cancel := caddy.NewContext(caddy.Context{Context: context.Background()})
	if err := val.Provision(ctx); err != nil {
		cancel()
		return &V{Val: val, cancel: func() {}, done: true}, err
	}
	return &V{Val: val, cancel: cancel}, nil
}

// Verify runs VerifyClientCertificate for the given verified chains.
func (v *V) Verify(chains ...[]*x509.Certificate) error {
	var raw [][]byte
	if len(chains) > 0 {
		for _, c := range chains[0] {
			raw = append(raw, c.Raw)
		}
	}
	return v.Val.VerifyClientCertificate(raw, chains)
}

// Cleanup runs the validator's Cleanup once.
func (v *V) Cleanup() error {
	if v.done {
		return nil
	}
	v.done = true
	err := v.Val.Cleanup()
	v.cancel()
	return err
}
