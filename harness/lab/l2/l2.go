// Package l2 drives crl.CRLRevocationChecker directly (config structs with parsed fields),
// with deterministic stepping of update passes through the verif hooks.
package l2

import (
	"crypto/x509"
	"fmt"
	"io"
	"os"
	"sync"
	"sync/atomic"
	"time"

	"go.uber.org/zap"
	"go.uber.org/zap/zapcore"

	"github.com/gr33nbl00d/caddy-revocation-validator/config"
	"github.com/gr33nbl00d/caddy-revocation-validator/core/verifhook"
	"github.com/gr33nbl00d/caddy-revocation-validator/crl"
)

// Opts is a checker configuration.
type Opts struct {
	WorkDir  string
	Storage  string // memory | disk
	SigMode  string // "" (unset => verify), verify, verify_log, none
	Fetch    string // actively | background
	Strict   bool
	Interval time.Duration
	Trusted  []*x509.Certificate
	CRLUrls  []string
	CRLFiles []string
	Logger   *zap.Logger // nil: no-op logger
}

func (o Opts) logger() *zap.Logger {
	if o.Logger != nil {
		return o.Logger
	}
	// default: behaviour must not depend on the log level. Worker processes with an even shard index
	// (and unsharded engines) use a logger with every level enabled whose output is discarded; odd
	// shards use a no-op logger (every level disabled).
	if s := os.Getenv("VERIF_SHARD"); s != "" {
		var i, n int
		if _, err := fmt.Sscanf(s, "%d/%d", &i, &n); err == nil && i%2 == 1 {
			return zap.NewNop()
		}
	}
	return DebugLogger()
}

// DebugLogger is a logger with every level enabled that discards its output (code paths that
// only run when debug logging is on are exercised, nothing is printed).
func DebugLogger() *zap.Logger {
	core := zapcore.NewCore(zapcore.NewJSONEncoder(zap.NewProductionEncoderConfig()), zapcore.AddSync(io.Discard), zapcore.DebugLevel)
	return zap.New(core)
}

// Config builds the parsed configuration the way configparser.go would.
func (o Opts) Config() *config.CRLConfig {
	c := &config.CRLConfig{WorkDir: o.WorkDir, CRLUrls: o.CRLUrls, CRLFiles: o.CRLFiles, TrustedSignatureCerts: o.Trusted, CDPConfig: &config.CDPConfig{CRLCDPStrict: o.Strict}}
	if c.TrustedSignatureCerts == nil {
		c.TrustedSignatureCerts = []*x509.Certificate{}
	}
	switch o.Storage {
	case "disk", "":
		c.StorageTypeParsed = config.Disk
	default:
		c.StorageTypeParsed = config.Memory
	}
	switch o.SigMode {
	case "none":
		c.SignatureValidationModeParsed = config.SignatureValidationModeNone
	case "verify_log":
		c.SignatureValidationModeParsed = config.SignatureValidationModeVerifyLog
	default:
		c.SignatureValidationModeParsed = config.SignatureValidationModeVerify
	}
	if o.Fetch == "background" {
		c.CDPConfig.CRLFetchModeParsed = config.CRLFetchModeBackground
	}
	c.UpdateIntervalParsed = o.Interval
	if c.UpdateIntervalParsed == 0 {
		c.UpdateIntervalParsed = time.Hour
	}
	return c
}

// hook counters (process-global, like the hooks themselves)
var (
	hookOnce    sync.Once
	passBegin   atomic.Int64
	passEnd     atomic.Int64
	extraMu     sync.RWMutex
	extraHook   func(string)
	hookCounter sync.Map // name -> *atomic.Int64
)

// InstallHooks installs the counting hook handler (idempotent). extra (optional) is called for
// every hit after counting.
func InstallHooks() {
	hookOnce.Do(func() {
		verifhook.Set(func(name string) {
			switch name {
			case "crl.update.begin":
				passBegin.Add(1)
			case "crl.update.end":
				passEnd.Add(1)
			}
			v, _ := hookCounter.LoadOrStore(name, new(atomic.Int64))
			v.(*atomic.Int64).Add(1)
			extraMu.RLock()
			f := extraHook
			extraMu.RUnlock()
			if f != nil {
				f(name)
			}
		})
	})
}

// SetExtraHook sets a function called on every hook hit.
func SetExtraHook(f func(string)) {
	extraMu.Lock()
	extraHook = f
	extraMu.Unlock()
}

// HookCount returns how often a hook was hit.
func HookCount(name string) int64 {
	v, ok := hookCounter.Load(name)
	if !ok {
		return 0
	}
	return v.(*atomic.Int64).Load()
}

// PassesBegun returns the number of update passes begun so far.
func PassesBegun() int64 { return passBegin.Load() }

// WaitPasses waits until at least minBegun passes have begun and all begun passes have ended.
// Returns false on timeout.
func WaitPasses(minBegun int64, timeout time.Duration) bool {
	deadline := time.Now().Add(timeout)
	for time.Now().Before(deadline) {
		b, e := passBegin.Load(), passEnd.Load()
		if b >= minBegun && b == e {
			// double check after a short pause (a pass may be about to begin)
			return true
		}
		time.Sleep(200 * time.Microsecond)
	}
	return false
}

// Checker is a running CRL checker.
type Checker struct {
	C       *crl.CRLRevocationChecker
	Opts    Opts
	stopped bool
}

// Start provisions a checker and waits for the initial update pass of its ticker goroutine.
func Start(o Opts) (*Checker, error) {
	InstallHooks()
	before := passBegin.Load()
	c := &crl.CRLRevocationChecker{}
	if err := c.Provision(o.Config(), o.logger()); err != nil {
		_ = c.Cleanup()
		return nil, err
	}
	WaitPasses(before+1, 60*time.Second)
	return &Checker{C: c, Opts: o}, nil
}

// Stop runs Cleanup once (Caddy calls Cleanup exactly once per provisioned module).
// StartNoWait provisions a checker and returns as soon as Provision returns (the initial update
// pass of the ticker goroutine may still be running or may not have begun).
func StartNoWait(o Opts) (*Checker, error) {
	InstallHooks()
	c := &crl.CRLRevocationChecker{}
	if err := c.Provision(o.Config(), o.logger()); err != nil {
		_ = c.Cleanup()
		return nil, err
	}
	return &Checker{C: c, Opts: o}, nil
}

func (c *Checker) Stop() {
	if c.stopped {
		return
	}
	c.stopped = true
	_ = c.C.Cleanup()
}

// Restart = Cleanup + Provision on the same work_dir.
func (c *Checker) Restart() error {
	c.Stop()
	n, err := Start(c.Opts)
	if err != nil {
		return err
	}
	c.C = n.C
	c.stopped = false
	return nil
}

// Refresh runs one forced update pass synchronously.
func (c *Checker) Refresh() { c.C.VerifUpdateCRLs(true) }

// Ask is one handshake-level question. In background fetch mode it then waits until the update
// pass the question may have triggered has finished, so that histories stay deterministic.
func (c *Checker) Ask(chain []*x509.Certificate) (bool, error) {
	before := passBegin.Load()
	st, err := c.C.IsRevoked(chain[0], [][]*x509.Certificate{chain})
	if c.Opts.Fetch == "background" {
		// a triggered pass begins within a few scheduler quanta; wait briefly for it to show up
		deadline := time.Now().Add(30 * time.Millisecond)
		for time.Now().Before(deadline) && passBegin.Load() == before {
			time.Sleep(100 * time.Microsecond)
		}
		WaitPasses(0, 60*time.Second)
	}
	if err != nil {
		return false, err
	}
	return st.Revoked, nil
}
