// Package report implements verdict discipline, known findings, replay
// directories and evidence files shared by all engines.
package report

import (
	"bufio"
	"encoding/json"
	"fmt"
	"os"
	"os/exec"
	"path/filepath"
	"sort"
	"strconv"
	"strings"
	"sync"
	"time"
)

// Root is /verif (overridable for runs from a snapshot).
func Root() string {
	if r := os.Getenv("VERIF_ROOT"); r != "" {
		return r
	}
	return "/verif"
}

type finding struct {
	Property, Key, Text string
}

// Run collects what one check execution observed.
type Run struct {
	ID    string
	Tier  string
	Seed  int64
	Level string

	mu          sync.Mutex
	start       time.Time
	evals       int64
	nontrivial  map[string]bool
	samples     []any
	maxSamples  int
	counters    map[string]int64
	sets        map[string]map[string]bool
	extra       map[string]any
	assumptions []string
	rule        string
	exhaustive  *bool

	findings         []finding
	knownSeen        map[string]string
	violations       []string // keys
	violationSeen    map[string]int
	inconclusive     []string
	hardInconclusive []string // worker deaths that cannot be attributed to the system under test: the run exits 2
	replayN          int

	shardViolations []partialViolation
	isShard         bool
}

// New creates a run for property id; tier from argv[1] or VERIF_TIER; seed from VERIF_SEED.
func New(id, level string) *Run {
	tier := os.Getenv("VERIF_TIER")
	for _, a := range os.Args[1:] {
		if a == "quick" || a == "thorough" {
			tier = a
		}
	}
	if tier != "thorough" {
		tier = "quick"
	}
	seed := int64(1)
	if s := os.Getenv("VERIF_SEED"); s != "" {
		if v, err := strconv.ParseInt(s, 10, 64); err == nil {
			seed = v
		}
	}
	r := &Run{ID: id, Tier: tier, Seed: seed, Level: level, start: time.Now(),
		nontrivial: map[string]bool{}, counters: map[string]int64{}, sets: map[string]map[string]bool{},
		extra: map[string]any{}, knownSeen: map[string]string{}, violationSeen: map[string]int{}, maxSamples: 12}
	r.loadFindings()
	_, _, r.isShard = Shard()
	return r
}

func (r *Run) Thorough() bool { return r.Tier == "thorough" }

func (r *Run) loadFindings() {
	f, err := os.Open(filepath.Join(Root(), "KNOWN_FINDINGS.txt"))
	if err != nil {
		return
	}
	defer f.Close()
	sc := bufio.NewScanner(f)
	for sc.Scan() {
		line := strings.TrimSpace(sc.Text())
		if !strings.HasPrefix(line, "finding:") {
			continue
		}
		fs := strings.Fields(strings.TrimPrefix(line, "finding:"))
		var fd finding
		var rest []string
		for _, w := range fs {
			switch {
			case strings.HasPrefix(w, "property=") && fd.Property == "":
				fd.Property = strings.TrimPrefix(w, "property=")
			case strings.HasPrefix(w, "key=") && fd.Key == "":
				fd.Key = strings.TrimPrefix(w, "key=")
			default:
				rest = append(rest, w)
			}
		}
		fd.Text = strings.Join(rest, " ")
		if fd.Property == r.ID && fd.Key != "" {
			r.findings = append(r.findings, fd)
		}
	}
}

// Eval counts n evaluated cases.
func (r *Run) Eval(n int) {
	r.mu.Lock()
	r.evals += int64(n)
	r.mu.Unlock()
}

// NonTrivial records a distinct non-trivial case descriptor.
func (r *Run) NonTrivial(descriptor string) {
	r.mu.Lock()
	r.nontrivial[descriptor] = true
	r.mu.Unlock()
}

func (r *Run) Count(name string, n int64) {
	r.mu.Lock()
	r.counters[name] += n
	r.mu.Unlock()
}

// Distinct adds a member to a named set (size reported in coverage).
func (r *Run) Distinct(set, member string) {
	r.mu.Lock()
	m := r.sets[set]
	if m == nil {
		m = map[string]bool{}
		r.sets[set] = m
	}
	m[member] = true
	r.mu.Unlock()
}

func (r *Run) DistinctCount(set string) int {
	r.mu.Lock()
	defer r.mu.Unlock()
	return len(r.sets[set])
}

func (r *Run) Counter(name string) int64 {
	r.mu.Lock()
	defer r.mu.Unlock()
	return r.counters[name]
}

// Sample records an actual case (bounded number kept).
func (r *Run) Sample(x any) {
	r.mu.Lock()
	if len(r.samples) < r.maxSamples {
		r.samples = append(r.samples, x)
	}
	r.mu.Unlock()
}

func (r *Run) Set(key string, v any) {
	r.mu.Lock()
	r.extra[key] = v
	r.mu.Unlock()
}

func (r *Run) Rule(s string)      { r.rule = s }
func (r *Run) Assume(s ...string) { r.assumptions = append(r.assumptions, s...) }
func (r *Run) Exhaustive(b bool)  { r.exhaustive = &b }
func (r *Run) Inconclusive(why string) {
	r.mu.Lock()
	r.inconclusive = append(r.inconclusive, why)
	r.mu.Unlock()
}

// Replay is a set of files describing a failing case.
type Replay struct {
	Files map[string][]byte
	Case  any
}

// Violation reports a failed oracle. key is the stable key (without property). If the key is a
// listed known finding it is recorded as re-observed; otherwise a VIOLATION line is printed
// (once per key; further cases with the same key are only counted).
func (r *Run) Violation(key, what string, rp *Replay) {
	r.mu.Lock()
	defer r.mu.Unlock()
	if r.isShard {
		// a shard worker only records; the parent decides (known findings, one line per key)
		n := 0
		for _, v := range r.shardViolations {
			if v.Key == key {
				n++
			}
		}
		if n < 2 {
			pv := partialViolation{Key: key, What: what}
			if rp != nil {
				pv.Case, pv.Files = rp.Case, rp.Files
			}
			r.shardViolations = append(r.shardViolations, pv)
		}
		return
	}
	for _, f := range r.findings {
		if f.Key == key {
			if _, ok := r.knownSeen[key]; !ok {
				r.knownSeen[key] = f.Text
			}
			r.counters["known_finding_cases"]++
			return
		}
	}
	r.violationSeen[key]++
	if r.violationSeen[key] > 1 {
		return
	}
	r.violations = append(r.violations, key)
	r.replayN++
	dir := filepath.Join(Root(), "replays"+os.Getenv("VERIF_REPLAYS_SUFFIX"), r.ID, fmt.Sprintf("%03d-%s", r.replayN, sanitize(key)))
	_ = os.MkdirAll(dir, 0755)
	meta := map[string]any{"property": r.ID, "key": key, "what": what, "seed": r.Seed, "tier": r.Tier}
	if rp != nil {
		meta["case"] = rp.Case
		for name, b := range rp.Files {
			_ = os.WriteFile(filepath.Join(dir, name), b, 0644)
		}
	}
	b, _ := json.MarshalIndent(meta, "", " ")
	_ = os.WriteFile(filepath.Join(dir, "case.json"), b, 0644)
	fmt.Printf("VIOLATION property=%s replay=%s\n", r.ID, dir)
	fmt.Printf("  key=%s %s\n", key, what)
}

func sanitize(s string) string {
	var b strings.Builder
	for _, c := range s {
		if c >= 'a' && c <= 'z' || c >= 'A' && c <= 'Z' || c >= '0' && c <= '9' || c == '.' || c == '-' || c == '_' {
			b.WriteRune(c)
		} else {
			b.WriteByte('_')
		}
	}
	if b.Len() > 80 {
		return b.String()[:80]
	}
	return b.String()
}

// Violations returns the number of distinct unlisted violation keys so far.
func (r *Run) Violations() int {
	r.mu.Lock()
	defer r.mu.Unlock()
	return len(r.violations)
}

// Finish writes the evidence file, prints the verdict and exits. minNonTrivial is the
// observation threshold below which the run is inconclusive.
func (r *Run) Finish(minNonTrivial int) {
	r.mu.Lock()
	cov := map[string]any{
		"evaluations":         r.evals,
		"distinct_nontrivial": len(r.nontrivial),
		"rule":                r.rule,
		"samples":             r.samples,
	}
	if r.exhaustive != nil {
		cov["exhaustive"] = *r.exhaustive
	}
	for k, v := range r.counters {
		cov[k] = v
	}
	for k, m := range r.sets {
		cov["distinct_"+k] = len(m)
		if len(m) <= 40 {
			var xs []string
			for x := range m {
				xs = append(xs, x)
			}
			sort.Strings(xs)
			cov[k] = xs
		}
	}
	for k, v := range r.extra {
		cov[k] = v
	}
	var known []string
	for k := range r.knownSeen {
		known = append(known, k)
	}
	sort.Strings(known)
	cov["known_findings_reobserved"] = known
	cov["violation_keys"] = r.violations
	cov["inconclusive"] = r.inconclusive
	if len(r.samples) == 0 {
		cov["samples"] = []any{"(no case recorded)"}
	}
	ev := map[string]any{
		"property_id": r.ID,
		"tier":        r.Tier,
		"seed":        r.Seed,
		"level":       r.Level,
		"coverage":    cov,
		"assumptions": r.assumptions,
		"wall_s":      time.Since(r.start).Seconds(),
		"violations":  len(r.violations),
	}
	nviol := len(r.violations)
	nnt := len(r.nontrivial)
	inconcl := append([]string(nil), r.inconclusive...)
	hard := append([]string(nil), r.hardInconclusive...)
	r.mu.Unlock()

	if os.Getenv("VERIF_NO_EVIDENCE") == "" {
		dir := filepath.Join(Root(), "evidence")
		_ = os.MkdirAll(dir, 0755)
		b, err := json.MarshalIndent(ev, "", " ")
		if err != nil {
			fmt.Printf("evidence marshal error: %v\n", err)
		}
		_ = os.WriteFile(filepath.Join(dir, r.ID+".json"), b, 0644)
	}
	for i, n := range inconcl {
		if i >= 6 {
			fmt.Printf("NOTE (%d more inconclusive sub-cases)\n", len(inconcl)-i)
			break
		}
		if len(n) > 600 {
			n = n[:600]
		}
		fmt.Printf("NOTE inconclusive sub-case: %s\n", strings.ReplaceAll(n, "\n", " | "))
	}
	for _, k := range known {
		fmt.Printf("KNOWN-FINDING: property=%s key=%s %s\n", r.ID, k, r.knownSeen[k])
	}
	fmt.Printf("SUMMARY property=%s tier=%s seed=%d evaluations=%d distinct_nontrivial=%d violations=%d known=%d wall=%.1fs\n",
		r.ID, r.Tier, r.Seed, r.evals, nnt, nviol, len(known), time.Since(r.start).Seconds())
	runCleanups()
	if nviol > 0 {
		os.Exit(1)
	}
	if len(hard) > 0 {
		for _, h := range hard {
			if len(h) > 800 {
				h = h[:800]
			}
			fmt.Printf("INCONCLUSIVE property=%s reason=%s\n", r.ID, strings.ReplaceAll(h, "\n", " | "))
		}
		os.Exit(2)
	}
	if nnt < minNonTrivial {
		fmt.Printf("INCONCLUSIVE property=%s reason=observed-too-little (%d < %d non-trivial cases)\n", r.ID, nnt, minNonTrivial)
		os.Exit(2)
	}
	if len(inconcl) > 0 && os.Getenv("VERIF_STRICT_INCONCLUSIVE") != "" {
		os.Exit(2)
	}
	fmt.Printf("HELD property=%s on everything explored\n", r.ID)
	os.Exit(0)
}

// Scratch returns a fresh scratch directory under /verif/.scratch; cleanup removes it.
func Scratch(id string) (string, func()) {
	dir := filepath.Join(Root(), ".scratch", fmt.Sprintf("%s.%d", id, os.Getpid()))
	_ = os.RemoveAll(dir)
	if err := os.MkdirAll(dir, 0755); err != nil {
		panic(err)
	}
	OnExit(func() {
		if os.Getenv("VERIF_KEEP_SCRATCH") == "" {
			_ = os.RemoveAll(dir)
		}
	})
	return dir, func() { _ = os.RemoveAll(dir) }
}

// ---------------------------------------------------------------------------
// Sharding: process-global state in the system under test (one update mutex, one OCSP cache,
// one work-dir registry per process) makes goroutine parallelism serialise or couple cases, so
// engines split their deterministic case list over worker processes of the same binary.

type partial struct {
	Evals        int64
	NonTrivial   []string
	Samples      []any
	Counters     map[string]int64
	Sets         map[string][]string
	Extra        map[string]any
	Inconclusive []string
	Violations   []partialViolation
}

type partialViolation struct {
	Key, What string
	Case      any
	Files     map[string][]byte
}

var cleanups []func()

// OnExit registers a function run by Finish/FinishShard before the process exits.
func OnExit(f func()) { cleanups = append(cleanups, f) }

var execCommand = exec.Command

func runCleanups() {
	for i := len(cleanups) - 1; i >= 0; i-- {
		cleanups[i]()
	}
	cleanups = nil
}

// Shard returns (index, count, true) when this process is a shard worker.
func Shard() (int, int, bool) {
	s := os.Getenv("VERIF_SHARD")
	if s == "" {
		return 0, 1, false
	}
	var i, n int
	if _, err := fmt.Sscanf(s, "%d/%d", &i, &n); err != nil || n <= 0 {
		return 0, 1, false
	}
	return i, n, true
}

// FinishShard writes the partial state of a shard worker and exits 0.
func (r *Run) FinishShard() {
	r.mu.Lock()
	p := partial{Evals: r.evals, Samples: r.samples, Counters: r.counters, Sets: map[string][]string{}, Extra: r.extra, Inconclusive: r.inconclusive, Violations: r.shardViolations}
	for k := range r.nontrivial {
		p.NonTrivial = append(p.NonTrivial, k)
	}
	for k, m := range r.sets {
		for x := range m {
			p.Sets[k] = append(p.Sets[k], x)
		}
	}
	r.mu.Unlock()
	b, err := json.Marshal(p)
	if err != nil {
		fmt.Println("shard: marshal:", err)
		runCleanups()
		os.Exit(3)
	}
	if err := os.WriteFile(os.Getenv("VERIF_SHARD_OUT"), b, 0644); err != nil {
		fmt.Println("shard: write:", err)
		runCleanups()
		os.Exit(3)
	}
	runCleanups()
	os.Exit(0)
}

// RunShards starts n worker processes of this binary (same arguments and environment plus the
// shard variables), waits for them and merges their partial states into r. extraEnv is added to
// every worker. A worker that dies without writing its state makes the run inconclusive.
func (r *Run) RunShards(n int, dir string, extraEnv ...string) {
	exe := os.Getenv("VERIF_ENGINE_BIN")
	if exe == "" {
		exe, _ = os.Executable()
	}
	type res struct {
		i   int
		err error
		pid int
	}
	done := make(chan res, n)
	for i := 0; i < n; i++ {
		go func(i int) {
			out := filepath.Join(dir, fmt.Sprintf("shard%d.json", i))
			logf, _ := os.Create(filepath.Join(dir, fmt.Sprintf("shard%d.log", i)))
			defer logf.Close()
			cmd := execCommand(exe, os.Args[1:]...)
			cmd.Env = append(os.Environ(), fmt.Sprintf("VERIF_SHARD=%d/%d", i, n), "VERIF_SHARD_OUT="+out, fmt.Sprintf("VERIF_SEED=%d", r.Seed), "VERIF_TIER="+r.Tier)
			cmd.Env = append(cmd.Env, extraEnv...)
			cmd.Stdout = logf
			cmd.Stderr = logf
			err := cmd.Run()
			pid := 0
			if cmd.Process != nil {
				pid = cmd.Process.Pid
			}
			done <- res{i, err, pid}
		}(i)
	}
	for k := 0; k < n; k++ {
		d := <-done
		out := filepath.Join(dir, fmt.Sprintf("shard%d.json", d.i))
		b, err := os.ReadFile(out)
		if err != nil {
			logb, _ := os.ReadFile(filepath.Join(dir, fmt.Sprintf("shard%d.log", d.i)))
			tail := string(logb)
			if len(tail) > 1500 {
				tail = tail[len(tail)-1500:]
			}
			r.Count("shards_died", 1)
			// a worker that crashed inside the system under test is a finding, not a harness problem:
			// look for the runtime's crash trace in the worker's own stderr file
			trace := tail
			// (a worker's scratch directory is <root>/.scratch/<ID>.<its pid>)
			wdir := filepath.Join(Root(), ".scratch", fmt.Sprintf("%s.%d", r.ID, d.pid))
			ms, _ := filepath.Glob(filepath.Join(wdir, fmt.Sprintf("*.shard%d", d.i)))
			ms2, _ := filepath.Glob(filepath.Join(dir, fmt.Sprintf("*.shard%d", d.i)))
			if ms = append(ms, ms2...); len(ms) > 0 {
				for _, m := range ms {
					if sb, err := os.ReadFile(m); err == nil {
						trace += "\n" + string(sb)
					}
				}
			}
			if d.pid != 0 && os.Getenv("VERIF_KEEP_SCRATCH") == "" {
				_ = os.RemoveAll(wdir)
			}
			if kind, frame, excerpt := crashInRepository(trace); kind != "" {
				r.Violation("process-crash."+kind+"."+frame, fmt.Sprintf("worker process %d died inside the system under test (%s in %s): %s", d.i, kind, frame, excerpt), &Replay{Case: map[string]any{"shard": d.i, "exit": fmt.Sprint(d.err)}, Files: map[string][]byte{"crash.txt": []byte(trace)}})
				continue
			}
			r.mu.Lock()
			r.hardInconclusive = append(r.hardInconclusive, fmt.Sprintf("worker process %d died without result (%v) and no crash trace through the repository was found: %s", d.i, d.err, tail))
			r.mu.Unlock()
			continue
		}
		var p partial
		if err := json.Unmarshal(b, &p); err != nil {
			r.Inconclusive(fmt.Sprintf("shard %d result unreadable: %v", d.i, err))
			continue
		}
		r.merge(&p)
	}
}

// crashInRepository looks for a Go runtime crash trace ("panic:" / "fatal error:") whose stack
// passes through the repository's packages. It returns the kind, the innermost repository
// function and an excerpt.
func crashInRepository(trace string) (kind, frame, excerpt string) {
	const mod = "github.com/gr33nbl00d/caddy-revocation-validator"
	i := strings.Index(trace, "\npanic: ")
	kind = "panic"
	if j := strings.Index(trace, "\nfatal error: "); j >= 0 && (i < 0 || j < i) {
		i, kind = j, "fatal-error"
	}
	if strings.HasPrefix(trace, "panic: ") {
		i, kind = 0, "panic"
	}
	if i < 0 {
		return "", "", ""
	}
	rest := trace[i:]
	// the first goroutine block after the message is the crashing one
	blk := rest
	if g := strings.Index(rest, "\ngoroutine "); g >= 0 {
		blk = rest[g+1:]
		if e := strings.Index(blk, "\n\n"); e >= 0 {
			blk = blk[:e]
		}
	}
	for _, line := range strings.Split(blk, "\n") {
		line = strings.TrimSpace(line)
		if strings.HasPrefix(line, mod) && !strings.Contains(line, "/verifhook.") {
			f := strings.TrimPrefix(line, mod)
			if p := strings.LastIndex(f, "("); p > 0 {
				f = f[:p] // argument list
			}
			f = strings.Trim(strings.NewReplacer("/", ".", "*", "", "(", "", ")", "").Replace(f), ".")
			if len(rest) > 1200 {
				rest = rest[:1200]
			}
			return kind, f, strings.ReplaceAll(rest, "\n", " | ")
		}
	}
	return "", "", ""
}

func (r *Run) merge(p *partial) {
	r.mu.Lock()
	r.evals += p.Evals
	for _, k := range p.NonTrivial {
		r.nontrivial[k] = true
	}
	for _, s := range p.Samples {
		if len(r.samples) < r.maxSamples {
			r.samples = append(r.samples, s)
		}
	}
	for k, v := range p.Counters {
		r.counters[k] += v
	}
	for k, xs := range p.Sets {
		m := r.sets[k]
		if m == nil {
			m = map[string]bool{}
			r.sets[k] = m
		}
		for _, x := range xs {
			m[x] = true
		}
	}
	for k, v := range p.Extra {
		r.extra[k] = v
	}
	r.inconclusive = append(r.inconclusive, p.Inconclusive...)
	r.mu.Unlock()
	for _, v := range p.Violations {
		r.Violation(v.Key, v.What, &Replay{Case: v.Case, Files: v.Files})
	}
}
