// Package crlgen writes CRLs at TLV level from a specification and decodes them
// again with an independent whole-document reference decoder (encoding/asn1).
package crlgen

import (
	"bytes"
	"crypto"
	"crypto/ecdsa"
	"crypto/ed25519"
	"crypto/rand"
	"crypto/rsa"
	_ "crypto/sha1"
	_ "crypto/sha256"
	_ "crypto/sha512"
	"crypto/x509/pkix"
	"encoding/asn1"
	"encoding/base64"
	"errors"
	"fmt"
	"math/big"
	"time"

	"verif/harness/lab/der"
)

// Alg describes a signature algorithm of the CRL profile.
type Alg struct {
	Name      string
	OID       string
	Hash      crypto.Hash
	Family    string // "rsa", "ecdsa", "pss", "ed25519"
	Null      bool   // NULL parameters in the AlgorithmIdentifier
	Supported bool   // supported by the repository's documented profile
}

var Algs = []Alg{
	{"sha1WithRSA", "1.2.840.113549.1.1.5", crypto.SHA1, "rsa", true, true},
	{"sha224WithRSA", "1.2.840.113549.1.1.14", crypto.SHA224, "rsa", true, true},
	{"sha256WithRSA", "1.2.840.113549.1.1.11", crypto.SHA256, "rsa", true, true},
	{"sha384WithRSA", "1.2.840.113549.1.1.12", crypto.SHA384, "rsa", true, true},
	{"sha512WithRSA", "1.2.840.113549.1.1.13", crypto.SHA512, "rsa", true, true},
	{"ecdsaWithSHA1", "1.2.840.10045.4.1", crypto.SHA1, "ecdsa", false, true},
	{"ecdsaWithSHA224", "1.2.840.10045.4.3.1", crypto.SHA224, "ecdsa", false, true},
	{"ecdsaWithSHA256", "1.2.840.10045.4.3.2", crypto.SHA256, "ecdsa", false, true},
	{"ecdsaWithSHA384", "1.2.840.10045.4.3.3", crypto.SHA384, "ecdsa", false, true},
	{"ecdsaWithSHA512", "1.2.840.10045.4.3.4", crypto.SHA512, "ecdsa", false, true},
	{"rsassaPss", "1.2.840.113549.1.1.10", crypto.SHA256, "pss", false, false},
	{"ed25519", "1.3.101.112", 0, "ed25519", false, false},
}

func AlgByName(n string) Alg {
	for _, a := range Algs {
		if a.Name == n {
			return a
		}
	}
	panic("crlgen: unknown alg " + n)
}

// AlgFor picks a default supported algorithm for a key.
func AlgFor(key crypto.Signer) Alg {
	switch key.(type) {
	case *rsa.PrivateKey:
		return AlgByName("sha256WithRSA")
	case *ecdsa.PrivateKey:
		return AlgByName("ecdsaWithSHA256")
	case ed25519.PrivateKey:
		return AlgByName("ed25519")
	}
	panic("crlgen: unknown key type")
}

// pssParams is the DER of RSASSA-PSS-params for SHA-256 / MGF1-SHA-256 / salt 32.
func pssParams() []byte {
	sha256 := der.Seq(der.OID("2.16.840.1.101.3.4.2.1"), der.Null())
	mgf := der.Seq(der.OID("1.2.840.113549.1.1.8"), sha256)
	return der.Seq(der.Explicit(0, sha256), der.Explicit(1, mgf), der.Explicit(2, der.SmallInt(32)))
}

// AlgID returns the AlgorithmIdentifier TLV.
func (a Alg) AlgID() []byte {
	if a.Family == "pss" {
		return der.Seq(der.OID(a.OID), pssParams())
	}
	return der.AlgID(a.OID, a.Null)
}

// Entry is one revoked certificate.
type Entry struct {
	Serial  *big.Int
	Date    time.Time
	GenTime bool     // encode the revocation date as GeneralizedTime
	Exts    [][]byte // raw Extension TLVs (crlEntryExtensions)
}

// Spec describes a CRL.
type Spec struct {
	Version      int // -1: field absent (v1); 0: explicit 0; 1: v2; 2: "v3"
	Alg          Alg
	InnerAlgID   []byte // overrides the tbs signature AlgorithmIdentifier
	OuterAlgID   []byte // overrides the outer signatureAlgorithm
	IssuerRaw    []byte
	ThisUpdate   time.Time
	NextUpdate   time.Time
	NoNextUpdate bool
	ThisGenTime  bool
	NextGenTime  bool
	Entries      []Entry
	EmptyRevoked bool     // emit an empty revokedCertificates SEQUENCE when there are no entries
	Exts         [][]byte // raw Extension TLVs (crlExtensions); nil => field absent
}

// ReasonExt builds a reasonCode entry extension.
func ReasonExt(code int) []byte { return der.Ext("2.5.29.21", false, der.Enumerated(code)) }

// InvalidityExt builds an invalidityDate entry extension.
func InvalidityExt(t time.Time) []byte {
	return der.Ext("2.5.29.24", false, der.GeneralizedTime(t))
}

// FillerExt builds an unknown non-critical extension whose whole TLV has exactly total bytes
// (total >= 20) — used to move later element boundaries.
func FillerExt(total int) []byte {
	oid := der.OID("1.3.6.1.4.1.55555.1")
	for n := 0; n <= total; n++ {
		e := der.Seq(oid, der.Octets(make([]byte, n)))
		if len(e) == total {
			// fill with non-zero pattern
			e = der.Seq(oid, der.Octets(bytes.Repeat([]byte{0x5a}, n)))
			return e
		}
		if len(e) > total {
			break
		}
	}
	// lengths that cannot be hit exactly (length-of-length jumps): go one lower
	return FillerExt(total - 1)
}

func CRLNumberExt(n *big.Int) []byte { return der.Ext("2.5.29.20", false, der.Int(n)) }

// AKI forms.
func AKIKeyID(keyID []byte) []byte {
	return der.Ext("2.5.29.35", false, der.Seq(der.ImplicitPrim(0, keyID)))
}

// AKIIssuerSerial builds AKI with authorityCertIssuer (directoryName) + serial, optional keyId.
func AKIIssuerSerial(keyID []byte, issuerRaw []byte, serial *big.Int) []byte {
	var parts [][]byte
	if keyID != nil {
		parts = append(parts, der.ImplicitPrim(0, keyID))
	}
	// [1] GeneralNames ::= SEQUENCE OF GeneralName (implicit) ; directoryName [4] EXPLICIT Name
	gn := der.TLV(0xa4, issuerRaw)
	parts = append(parts, der.TLV(0xa1, gn))
	parts = append(parts, der.ImplicitPrim(2, der.IntContent(serial)))
	return der.Ext("2.5.29.35", false, der.Seq(parts...))
}

func IDPExt(critical bool) []byte {
	// issuingDistributionPoint with onlyContainsUserCerts [1] TRUE
	return der.Ext("2.5.29.28", critical, der.Seq(der.ImplicitPrim(1, []byte{0xff})))
}

func DeltaIndicatorExt() []byte { return der.Ext("2.5.29.27", true, der.SmallInt(1)) }

func UnknownCriticalExt() []byte {
	return der.Ext("1.3.6.1.4.1.55555.2", true, der.Octets([]byte("x")))
}

func encTime(t time.Time, gen bool) []byte {
	if gen {
		return der.GeneralizedTime(t)
	}
	return der.UTCTime(t)
}

// EntryDER encodes one revoked certificate entry.
func (e Entry) DER() []byte {
	parts := [][]byte{der.Int(e.Serial), encTime(e.Date, e.GenTime)}
	if len(e.Exts) > 0 {
		parts = append(parts, der.Seq(e.Exts...))
	}
	return der.Seq(parts...)
}

// Layout reports byte offsets (within the DER document) of interesting boundaries.
type Layout struct {
	TBSStart, TBSEnd int
	RevokedStart     int   // offset of the revokedCertificates header (-1 if absent)
	EntryStarts      []int // only filled for <= 5000 entries
	ExtsStart        int   // offset of the [0] wrapper (-1 if absent)
	SigAlgStart      int
	SigStart         int
}

// Built is a generated CRL.
type Built struct {
	DER    []byte
	TBS    []byte
	Sig    []byte
	Layout Layout
}

// TBS encodes tbsCertList and returns also relative offsets.
func (s *Spec) TBS() ([]byte, Layout) {
	var head [][]byte
	if s.Version >= 0 {
		head = append(head, der.SmallInt(int64(s.Version)))
	}
	inner := s.InnerAlgID
	if inner == nil {
		inner = s.Alg.AlgID()
	}
	head = append(head, inner, s.IssuerRaw, encTime(s.ThisUpdate, s.ThisGenTime))
	if !s.NoNextUpdate {
		head = append(head, encTime(s.NextUpdate, s.NextGenTime))
	}
	headLen := 0
	for _, h := range head {
		headLen += len(h)
	}
	var revoked []byte
	var entryRel []int
	if len(s.Entries) > 0 || s.EmptyRevoked {
		var body bytes.Buffer
		for _, e := range s.Entries {
			if len(s.Entries) <= 5000 {
				entryRel = append(entryRel, body.Len())
			}
			body.Write(e.DER())
		}
		hdr := der.Header(der.TagSequence, body.Len())
		for i := range entryRel {
			entryRel[i] += len(hdr)
		}
		revoked = append(hdr, body.Bytes()...)
	}
	var exts []byte
	if s.Exts != nil {
		exts = der.Explicit(0, der.Seq(s.Exts...))
	}
	content := headLen + len(revoked) + len(exts)
	hdr := der.Header(der.TagSequence, content)
	out := make([]byte, 0, len(hdr)+content)
	out = append(out, hdr...)
	for _, h := range head {
		out = append(out, h...)
	}
	l := Layout{RevokedStart: -1, ExtsStart: -1}
	if revoked != nil {
		l.RevokedStart = len(out)
		for _, r := range entryRel {
			l.EntryStarts = append(l.EntryStarts, len(out)+r)
		}
		out = append(out, revoked...)
	}
	if exts != nil {
		l.ExtsStart = len(out)
		out = append(out, exts...)
	}
	return out, l
}

// SignTBS signs tbs with the given algorithm.
func SignTBS(tbs []byte, alg Alg, key crypto.Signer) ([]byte, error) {
	switch alg.Family {
	case "rsa":
		k, ok := key.(*rsa.PrivateKey)
		if !ok {
			return nil, errors.New("crlgen: rsa alg needs rsa key")
		}
		h := alg.Hash.New()
		h.Write(tbs)
		return rsa.SignPKCS1v15(rand.Reader, k, alg.Hash, h.Sum(nil))
	case "pss":
		k, ok := key.(*rsa.PrivateKey)
		if !ok {
			return nil, errors.New("crlgen: pss alg needs rsa key")
		}
		h := alg.Hash.New()
		h.Write(tbs)
		return rsa.SignPSS(rand.Reader, k, alg.Hash, h.Sum(nil), &rsa.PSSOptions{SaltLength: 32})
	case "ecdsa":
		k, ok := key.(*ecdsa.PrivateKey)
		if !ok {
			return nil, errors.New("crlgen: ecdsa alg needs ecdsa key")
		}
		h := alg.Hash.New()
		h.Write(tbs)
		return ecdsa.SignASN1(rand.Reader, k, h.Sum(nil))
	case "ed25519":
		k, ok := key.(ed25519.PrivateKey)
		if !ok {
			return nil, errors.New("crlgen: ed25519 alg needs ed25519 key")
		}
		return ed25519.Sign(k, tbs), nil
	}
	return nil, errors.New("crlgen: unknown family")
}

// Assemble builds CertificateList from parts.
func Assemble(tbs, outerAlgID, sig []byte) []byte {
	return der.Seq(tbs, outerAlgID, der.Bits(sig))
}

// Build encodes and signs the CRL.
func (s *Spec) Build(key crypto.Signer) *Built {
	tbs, l := s.TBS()
	sig, err := SignTBS(tbs, s.Alg, key)
	if err != nil {
		panic(err)
	}
	outer := s.OuterAlgID
	if outer == nil {
		outer = s.Alg.AlgID()
	}
	doc := Assemble(tbs, outer, sig)
	off := len(doc) - (len(tbs) + len(outer) + len(der.Bits(sig)))
	l.TBSStart = off
	l.TBSEnd = off + len(tbs)
	if l.RevokedStart >= 0 {
		l.RevokedStart += off
	}
	for i := range l.EntryStarts {
		l.EntryStarts[i] += off
	}
	if l.ExtsStart >= 0 {
		l.ExtsStart += off
	}
	l.SigAlgStart = l.TBSEnd
	l.SigStart = l.TBSEnd + len(outer)
	return &Built{DER: doc, TBS: tbs, Sig: sig, Layout: l}
}

// PEM renders 64-column PEM with the given line ending; finalNewline controls the
// newline after the END line.
func PEM(derBytes []byte, eol string, finalNewline bool) []byte {
	var b bytes.Buffer
	b.WriteString("-----BEGIN X509 CRL-----" + eol)
	enc := base64.StdEncoding.EncodeToString(derBytes)
	for len(enc) > 64 {
		b.WriteString(enc[:64] + eol)
		enc = enc[64:]
	}
	if len(enc) > 0 {
		b.WriteString(enc + eol)
	}
	b.WriteString("-----END X509 CRL-----")
	if finalNewline {
		b.WriteString(eol)
	}
	return b.Bytes()
}

// ---------------------------------------------------------------------------
// Reference decoder (whole document, encoding/asn1).

type refTBS struct {
	Raw        asn1.RawContent
	Version    int `asn1:"optional,default:0"`
	Signature  pkix.AlgorithmIdentifier
	Issuer     asn1.RawValue
	ThisUpdate time.Time
	NextUpdate time.Time                 `asn1:"optional"`
	Revoked    []pkix.RevokedCertificate `asn1:"optional"`
	Extensions []pkix.Extension          `asn1:"tag:0,optional,explicit"`
}

type refList struct {
	TBS    refTBS
	SigAlg pkix.AlgorithmIdentifier
	Sig    asn1.BitString
}

// Ref is what the reference decoder yields.
type Ref struct {
	RawTBS     []byte
	Version    int // 1-based (1 = v1)
	InnerOID   string
	OuterOID   string
	IssuerRaw  []byte
	Issuer     pkix.RDNSequence
	ThisUpdate time.Time
	NextUpdate time.Time // zero if absent
	Entries    []pkix.RevokedCertificate
	Extensions []pkix.Extension
	CRLNumber  *big.Int
	Sig        []byte
	SigBits    int
}

// Decode is the reference whole-document decoder.
func Decode(doc []byte) (*Ref, error) {
	var l refList
	rest, err := asn1.Unmarshal(doc, &l)
	if err != nil {
		return nil, err
	}
	if len(rest) != 0 {
		return nil, errors.New("ref: trailing data")
	}
	r := &Ref{
		RawTBS:     l.TBS.Raw,
		Version:    l.TBS.Version + 1,
		InnerOID:   l.TBS.Signature.Algorithm.String(),
		OuterOID:   l.SigAlg.Algorithm.String(),
		IssuerRaw:  l.TBS.Issuer.FullBytes,
		ThisUpdate: l.TBS.ThisUpdate,
		NextUpdate: l.TBS.NextUpdate,
		Entries:    l.TBS.Revoked,
		Extensions: l.TBS.Extensions,
		Sig:        l.Sig.Bytes,
		SigBits:    l.Sig.BitLength,
	}
	if _, err := asn1.Unmarshal(r.IssuerRaw, &r.Issuer); err != nil {
		return nil, fmt.Errorf("ref: issuer: %v", err)
	}
	for _, e := range r.Extensions {
		if e.Id.String() == "2.5.29.20" {
			n := new(big.Int)
			if _, err := asn1.Unmarshal(e.Value, &n); err != nil {
				return nil, fmt.Errorf("ref: crl number: %v", err)
			}
			r.CRLNumber = n
		}
	}
	return r, nil
}

// Digest hashes the raw tbsCertList under h.
func (r *Ref) Digest(h crypto.Hash) []byte {
	x := h.New()
	x.Write(r.RawTBS)
	return x.Sum(nil)
}

// HashForOID maps the supported signature OIDs to their hash.
func HashForOID(oid string) (crypto.Hash, bool) {
	for _, a := range Algs {
		if a.OID == oid && a.Supported {
			return a.Hash, true
		}
	}
	return 0, false
}

// VerifyWith checks the CRL signature with Go's crypto under pub (reference policy).
func (r *Ref) VerifyWith(pub crypto.PublicKey) bool {
	if r.InnerOID != r.OuterOID {
		return false
	}
	h, ok := HashForOID(r.OuterOID)
	if !ok {
		return false
	}
	d := r.Digest(h)
	var fam string
	for _, a := range Algs {
		if a.OID == r.OuterOID {
			fam = a.Family
		}
	}
	switch k := pub.(type) {
	case *rsa.PublicKey:
		return fam == "rsa" && rsa.VerifyPKCS1v15(k, h, d, r.Sig) == nil
	case *ecdsa.PublicKey:
		return fam == "ecdsa" && ecdsa.VerifyASN1(k, d, r.Sig)
	}
	return false
}
