// Package gen produces seeded random CRL specifications and names.
package gen

import (
	"crypto"
	"crypto/ecdsa"
	"crypto/rsa"
	"math/big"
	"math/rand"
	"time"

	"verif/harness/lab/crlgen"
	"verif/harness/lab/der"
	"verif/harness/lab/pki"
)

// Names of varied shape (raw RDNSequence DER).
func NameShapes() map[string][]byte {
	cn := "2.5.4.3"
	o := "2.5.4.10"
	c := "2.5.4.6"
	ou := "2.5.4.11"
	email := "1.2.840.113549.1.9.1"
	dc := "0.9.2342.19200300.100.1.25"
	private := "1.3.6.1.4.1.55555.7"
	return map[string][]byte{
		// names that crypto/x509's pkix.Name does not round-trip (attribute types it does not know,
		// repeated types, an order other than C, O, OU, CN)
		"dc":            der.Name([]der.ATV{{dc, der.TagIA5String, "org"}}, []der.ATV{{dc, der.TagIA5String, "example"}}, []der.ATV{{cn, der.TagUTF8String, "Directory CA"}}),
		"two-ous":       der.Name([]der.ATV{{o, der.TagUTF8String, "Org"}}, []der.ATV{{ou, der.TagUTF8String, "Unit A"}}, []der.ATV{{ou, der.TagUTF8String, "Unit B"}}, []der.ATV{{cn, der.TagUTF8String, "OU CA"}}),
		"cn-first":      der.Name([]der.ATV{{cn, der.TagUTF8String, "Reverse CA"}}, []der.ATV{{o, der.TagUTF8String, "Org"}}, []der.ATV{{c, der.TagPrintable, "DE"}}),
		"private-oid":   der.Name([]der.ATV{{private, der.TagUTF8String, "site-7"}}, []der.ATV{{cn, der.TagUTF8String, "Private CA"}}),
		"cn-utf8":       der.Name([]der.ATV{{cn, der.TagUTF8String, "Test CA"}}),
		"cn-printable":  der.Name([]der.ATV{{cn, der.TagPrintable, "Test CA"}}),
		"c-o-cn":        der.Name([]der.ATV{{c, der.TagPrintable, "DE"}}, []der.ATV{{o, der.TagUTF8String, "Örg Ünïcode GmbH"}}, []der.ATV{{cn, der.TagUTF8String, "Issuing CA 1"}}),
		"multi-valued":  der.Name([]der.ATV{{c, der.TagPrintable, "US"}}, []der.ATV{{ou, der.TagUTF8String, "Unit"}, {cn, der.TagUTF8String, "Multi CA"}}),
		"ia5-email":     der.Name([]der.ATV{{email, der.TagIA5String, "ca@example.org"}}, []der.ATV{{cn, der.TagPrintable, "Mail CA"}}),
		"non-ascii":     der.Name([]der.ATV{{cn, der.TagUTF8String, "认证机构 ☃ CA"}}),
		"long":          der.Name([]der.ATV{{o, der.TagUTF8String, string(make([]rune, 0)) + longString(180)}}, []der.ATV{{cn, der.TagUTF8String, "Long CA"}}),
		"underscore-1":  der.Name([]der.ATV{{cn, der.TagUTF8String, "CA_1"}}),
		"special-chars": der.Name([]der.ATV{{cn, der.TagUTF8String, "CA, with=special+chars\\ \"q\" <x>;#"}}),
	}
}

func longString(n int) string {
	b := make([]byte, n)
	for i := range b {
		b[i] = 'a' + byte(i%26)
	}
	return string(b)
}

// SerialOfWidth returns a positive serial whose minimal content encoding has exactly w bytes
// (1..20; 21 only with hiBit: a 20-octet value whose top bit is set), seeded. hiBit requests the form
// with a leading zero octet (value's top bit set), which yields w bytes including the 0x00.
func SerialOfWidth(r *rand.Rand, w int, hiBit bool) *big.Int {
	if w < 1 {
		w = 1
	}
	b := make([]byte, w)
	r.Read(b)
	if hiBit && w >= 2 {
		b[0] = 0
		b[1] |= 0x80
	} else {
		b[0] &= 0x7f
		if b[0] == 0 {
			b[0] = 1
		}
	}
	return new(big.Int).SetBytes(b)
}

// Opts drives RandomSpec.
type Opts struct {
	N           int  // number of entries
	SerialWidth int  // 0 => mixed 1..20
	Exts        int  // 0 none, 1 reason, 2 reason+invalidity, 3 filler 3 KiB, 4 mixed
	GenTimeMix  bool // some entries with GeneralizedTime dates
	NoCrlExts   bool
	NoNext      bool
	V1          bool
}

// BaseTime is a fixed reference instant (no wall clock in deciding data).
var BaseTime = time.Date(2024, 5, 17, 10, 30, 0, 0, time.UTC)

// Entries builds n distinct entries.
func Entries(r *rand.Rand, o Opts) []crlgen.Entry {
	seen := map[string]bool{}
	out := make([]crlgen.Entry, 0, o.N)
	for len(out) < o.N {
		w := o.SerialWidth
		if w == 0 {
			w = 1 + r.Intn(21) // 21 = the largest serial RFC 5280 allows: 20 octets with the top bit set
		}
		if o.N > 100 && w < 3 {
			w = 3
		}
		if o.N > 50000 && w < 4 {
			w = 4
		}
		s := SerialOfWidth(r, w, r.Intn(4) == 0 || w == 21)
		k := s.String()
		if seen[k] {
			continue
		}
		seen[k] = true
		e := crlgen.Entry{Serial: s, Date: BaseTime.Add(-time.Duration(r.Intn(1000000)) * time.Second)}
		if o.GenTimeMix && r.Intn(3) == 0 {
			e.GenTime = true
		}
		mode := o.Exts
		if mode == 4 {
			mode = r.Intn(4)
		}
		switch mode {
		case 1:
			e.Exts = [][]byte{crlgen.ReasonExt(1 + r.Intn(6))}
		case 2:
			e.Exts = [][]byte{crlgen.ReasonExt(1 + r.Intn(6)), crlgen.InvalidityExt(e.Date.Add(-time.Hour))}
		case 3:
			e.Exts = [][]byte{crlgen.FillerExt(3072)}
		}
		out = append(out, e)
	}
	return out
}

// SpecFor builds a spec issued by ca with the given entries and sensible defaults.
func SpecFor(ca *pki.CA, entries []crlgen.Entry) *crlgen.Spec {
	s := &crlgen.Spec{
		Version:    1,
		Alg:        crlgen.AlgFor(ca.Key),
		IssuerRaw:  ca.Cert.RawSubject,
		ThisUpdate: BaseTime,
		NextUpdate: BaseTime.Add(7 * 24 * time.Hour),
		Entries:    entries,
		Exts:       [][]byte{crlgen.AKIKeyID(ca.Cert.SubjectKeyId), crlgen.CRLNumberExt(big.NewInt(7))},
	}
	return s
}

// AlgsForKey lists the supported algorithms usable with key.
func AlgsForKey(key crypto.Signer) []crlgen.Alg {
	var fam string
	switch key.(type) {
	case *rsa.PrivateKey:
		fam = "rsa"
	case *ecdsa.PrivateKey:
		fam = "ecdsa"
	}
	var out []crlgen.Alg
	for _, a := range crlgen.Algs {
		if a.Family == fam && a.Supported {
			out = append(out, a)
		}
	}
	return out
}
