// Package world bundles a small PKI with scripted CRL and OCSP origins.
package world

import (
	"crypto"
	"crypto/x509"
	"math/big"
	"time"

	"golang.org/x/crypto/ocsp"

	"verif/harness/lab/origin"
	"verif/harness/lab/pki"
)

// World is root -> intermediate -> leaves, plus origins.
type World struct {
	Root *pki.CA
	Int  *pki.CA
	CRL  *origin.Origin
	OCSP *origin.Origin
}

// New creates a world; the names get a suffix so that several worlds do not share issuer names.
func New(suffix string) *World {
	root := pki.NewRoot(pki.CertOpts{CN: "Verif Root " + suffix})
	in := root.Issue(pki.CertOpts{CN: "Verif Issuing CA " + suffix, IsCA: true})
	return &World{Root: root, Int: in, CRL: origin.New(), OCSP: origin.New()}
}

// NewWithKeys is New with caller-chosen keys for root and intermediate (nil = P-256).
func NewWithKeys(suffix string, rootKey, intKey crypto.Signer) *World {
	root := pki.NewRoot(pki.CertOpts{CN: "Verif Root " + suffix, Key: rootKey})
	in := root.Issue(pki.CertOpts{CN: "Verif Issuing CA " + suffix, IsCA: true, Key: intKey})
	return &World{Root: root, Int: in, CRL: origin.New(), OCSP: origin.New()}
}

// NewNamed is NewWithKeys with a caller-chosen raw subject name for the intermediate (nil = default).
func NewNamed(suffix string, rootKey, intKey crypto.Signer, intRawSubject []byte) *World {
	root := pki.NewRoot(pki.CertOpts{CN: "Verif Root " + suffix, Key: rootKey})
	in := root.Issue(pki.CertOpts{CN: "Verif Issuing CA " + suffix, RawSubject: intRawSubject, IsCA: true, Key: intKey})
	return &World{Root: root, Int: in, CRL: origin.New(), OCSP: origin.New()}
}

func (w *World) Close() {
	w.CRL.Close()
	w.OCSP.Close()
}

// Leaf issues a leaf under the intermediate and returns the verified chain [leaf, int, root].
func (w *World) Leaf(serial *big.Int, cdp []string, aia []string) []*x509.Certificate {
	leaf := w.Int.Leaf(serial, cdp, aia)
	return []*x509.Certificate{leaf, w.Int.Cert, w.Root.Cert}
}

// LeafAKI is Leaf with a chosen authorityKeyIdentifier form (see pki.CertOpts.AKIForm).
func (w *World) LeafAKI(serial *big.Int, cdp []string, aia []string, akiForm string) []*x509.Certificate {
	leaf := w.Int.LeafAKI(serial, cdp, aia, akiForm)
	return []*x509.Certificate{leaf, w.Int.Cert, w.Root.Cert}
}

// OCSPStatus is what a scripted responder says about a serial.
type OCSPStatus struct {
	Status     int // ocsp.Good / ocsp.Revoked / ocsp.Unknown
	NextUpdate time.Time
	ThisUpdate time.Time // zero: one minute ago
}

// Responder builds an origin behaviour answering OCSP requests, signed by signer (issuer itself
// when responderCert is nil).
func Responder(issuer *pki.CA, responderCert *x509.Certificate, responderKey crypto.Signer, status func(serial *big.Int) OCSPStatus) origin.Behaviour {
	return origin.Func(func(req []byte) (int, []byte) {
		r, err := ocsp.ParseRequest(req)
		if err != nil {
			return 400, []byte("bad request")
		}
		st := status(r.SerialNumber)
		body, err := MakeResponse(issuer, responderCert, responderKey, r.SerialNumber, st)
		if err != nil {
			return 500, []byte(err.Error())
		}
		return 200, body
	})
}

// MakeResponse creates one OCSP response.
func MakeResponse(issuer *pki.CA, responderCert *x509.Certificate, responderKey crypto.Signer, serial *big.Int, st OCSPStatus) ([]byte, error) {
	now := time.Now()
	t := ocsp.Response{
		Status:       st.Status,
		SerialNumber: serial,
		ThisUpdate:   now.Add(-time.Minute),
		NextUpdate:   st.NextUpdate,
		IssuerHash:   crypto.SHA1,
	}
	if !st.ThisUpdate.IsZero() {
		t.ThisUpdate = st.ThisUpdate
	}
	if st.Status == ocsp.Revoked {
		t.RevokedAt = now.Add(-time.Hour)
		t.RevocationReason = ocsp.KeyCompromise
	}
	rc := issuer.Cert
	key := issuer.Key
	if responderCert != nil {
		rc = responderCert
		key = responderKey
		t.Certificate = responderCert
	}
	return ocsp.CreateResponse(issuer.Cert, rc, t, key)
}
