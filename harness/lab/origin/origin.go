// Package origin is a scriptable loopback HTTP origin (CRL distribution point or
// OCSP responder) with a hit log.
package origin

import (
	"io"
	"net"
	"net/http"
	"sync"
	"sync/atomic"
	"time"
)

// Behaviour describes how a path answers.
type Behaviour struct {
	Kind   string // good | status | garbage | truncate | hang | func
	Body   []byte
	Code   int
	Delay  time.Duration
	Func   func(req []byte) (int, []byte) // Kind=func: body from request (OCSP)
	CType  string
	Repeat int    // informational
	After  func() // Kind=partial-then: called after the first half of Body was sent and flushed
}

// PartialThen sends the first half of body, calls after, then keeps the connection open for hold.
func PartialThen(body []byte, after func(), hold time.Duration) Behaviour {
	return Behaviour{Kind: "partial-then", Body: body, After: after, Delay: hold}
}

func Good(body []byte) Behaviour { return Behaviour{Kind: "good", Body: body} }
func Status(code int, body []byte) Behaviour {
	return Behaviour{Kind: "status", Code: code, Body: body}
}
func Garbage() Behaviour {
	return Behaviour{Kind: "garbage", Body: []byte("<html><body>this is not a CRL \x00\x01\x02</body></html>")}
}
func Truncate(body []byte, keep int) Behaviour {
	return Behaviour{Kind: "truncate", Body: body, Code: keep}
}
func Func(f func(req []byte) (int, []byte)) Behaviour { return Behaviour{Kind: "func", Func: f} }

// Hit is one logged request.
type Hit struct {
	Path      string
	Method    string
	Recv      time.Duration // since origin start (monotonic)
	Done      time.Duration
	Behaviour string
	ReqLen    int
}

// Origin is one loopback server.
type Origin struct {
	mu    sync.Mutex
	paths map[string]Behaviour
	def   *Behaviour
	hits  []Hit
	infl  map[string]int // requests received and not yet answered, per path
	start time.Time
	// Fragment: send every response body in two pieces with a flush and a pause in between
	// (a client that reads the body with a single Read sees only the first piece)
	Fragment atomic.Bool
	srv      *http.Server
	ln       net.Listener
	addr     string
	closed   bool
}

// New starts an origin on a free loopback port.
func New() *Origin {
	ln, err := net.Listen("tcp", "127.0.0.1:0")
	if err != nil {
		panic(err)
	}
	o := &Origin{paths: map[string]Behaviour{}, infl: map[string]int{}, start: time.Now(), ln: ln, addr: ln.Addr().String()}
	o.srv = &http.Server{Handler: http.HandlerFunc(o.serve)}
	o.srv.SetKeepAlivesEnabled(false)
	go func() { _ = o.srv.Serve(ln) }()
	return o
}

// URL returns http://addr + path.
func (o *Origin) URL(path string) string { return "http://" + o.addr + path }
func (o *Origin) Addr() string           { return o.addr }

// Set scripts a path.
func (o *Origin) Set(path string, b Behaviour) {
	o.mu.Lock()
	o.paths[path] = b
	o.mu.Unlock()
}

// InFlight returns the number of requests for path that were received and not yet answered.
func (o *Origin) InFlight(path string) int {
	o.mu.Lock()
	defer o.mu.Unlock()
	return o.infl[path]
}

// SetDefault scripts every path not set explicitly.
func (o *Origin) SetDefault(b Behaviour) {
	o.mu.Lock()
	o.def = &b
	o.mu.Unlock()
}

func (o *Origin) serve(w http.ResponseWriter, r *http.Request) {
	recv := time.Since(o.start)
	req, _ := io.ReadAll(r.Body)
	o.mu.Lock()
	o.infl[r.URL.Path]++
	defer func() {
		o.mu.Lock()
		o.infl[r.URL.Path]--
		o.mu.Unlock()
	}()
	b, ok := o.paths[r.URL.Path+"?"+r.URL.RawQuery] // a script may be keyed by path?query
	if !ok {
		b, ok = o.paths[r.URL.Path]
	}
	if !ok && o.def != nil {
		b, ok = *o.def, true
	}
	o.mu.Unlock()
	kind := b.Kind
	if !ok {
		kind = "404"
	}
	if b.Delay > 0 {
		time.Sleep(b.Delay)
	}
	switch kind {
	case "good", "garbage":
		if b.CType != "" {
			w.Header().Set("Content-Type", b.CType)
		}
		w.WriteHeader(200)
		if o.Fragment.Load() && len(b.Body) > 8 {
			// two pieces, flushed separately (the response is then chunked, without Content-Length)
			_, _ = w.Write(b.Body[:len(b.Body)/3])
			if f, ok := w.(http.Flusher); ok {
				f.Flush()
			}
			time.Sleep(time.Millisecond)
			_, _ = w.Write(b.Body[len(b.Body)/3:])
		} else {
			_, _ = w.Write(b.Body)
		}
	case "status":
		w.WriteHeader(b.Code)
		_, _ = w.Write(b.Body)
	case "truncate":
		// declare the full length, send only a prefix, then close the connection
		hj, okh := w.(http.Hijacker)
		if okh {
			conn, buf, err := hj.Hijack()
			if err == nil {
				keep := b.Code
				if keep > len(b.Body) {
					keep = len(b.Body)
				}
				_, _ = buf.WriteString("HTTP/1.1 200 OK\r\nContent-Length: " + itoa(len(b.Body)) + "\r\nConnection: close\r\n\r\n")
				_, _ = buf.Write(b.Body[:keep])
				_ = buf.Flush()
				_ = conn.Close()
			}
		}
	case "func":
		code, body := b.Func(req)
		w.Header().Set("Content-Type", "application/ocsp-response")
		w.WriteHeader(code)
		if o.Fragment.Load() && len(body) > 8 {
			_, _ = w.Write(body[:len(body)/2])
			if f, ok := w.(http.Flusher); ok {
				f.Flush()
			}
			time.Sleep(3 * time.Millisecond)
			_, _ = w.Write(body[len(body)/2:])
		} else {
			_, _ = w.Write(body)
		}
	case "partial-then":
		// first half of the body, flushed; then the callback (e.g. the parent kills the client); then hang
		w.WriteHeader(200)
		_, _ = w.Write(b.Body[:len(b.Body)/2])
		if f, ok := w.(http.Flusher); ok {
			f.Flush()
		}
		if b.After != nil {
			b.After()
		}
		time.Sleep(b.Delay)
	case "hang":
		time.Sleep(b.Delay)
	default:
		w.WriteHeader(404)
	}
	o.mu.Lock()
	o.hits = append(o.hits, Hit{Path: r.URL.Path, Method: r.Method, Recv: recv, Done: time.Since(o.start), Behaviour: kind, ReqLen: len(req)})
	o.mu.Unlock()
}

func itoa(n int) string {
	if n == 0 {
		return "0"
	}
	var b []byte
	for n > 0 {
		b = append([]byte{byte('0' + n%10)}, b...)
		n /= 10
	}
	return string(b)
}

// Hits returns a copy of the hit log.
func (o *Origin) Hits() []Hit {
	o.mu.Lock()
	defer o.mu.Unlock()
	return append([]Hit(nil), o.hits...)
}

// HitCount counts hits on a path ("" = all).
func (o *Origin) HitCount(path string) int {
	o.mu.Lock()
	defer o.mu.Unlock()
	if path == "" {
		return len(o.hits)
	}
	n := 0
	for _, h := range o.hits {
		if h.Path == path {
			n++
		}
	}
	return n
}

// Now returns the origin clock.
func (o *Origin) Now() time.Duration { return time.Since(o.start) }

// Close stops the server.
func (o *Origin) Close() {
	o.mu.Lock()
	if o.closed {
		o.mu.Unlock()
		return
	}
	o.closed = true
	o.mu.Unlock()
	_ = o.srv.Close()
}

// RefusedURL returns a URL on a loopback port that refuses connections.
func RefusedURL(path string) string {
	ln, err := net.Listen("tcp", "127.0.0.1:0")
	if err != nil {
		panic(err)
	}
	addr := ln.Addr().String()
	_ = ln.Close()
	return "http://" + addr + path
}
