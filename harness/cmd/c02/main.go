// c02: OCSP soundness and AIA-strict semantics (reference walk over responder lists + hit log).
package main

import (
	"crypto/tls"
	"crypto/x509"
	"fmt"
	"math/big"
	"math/rand"
	"net/http"
	"net/http/httptest"
	"os"
	"path/filepath"
	"strings"
	"sync"
	"time"

	"golang.org/x/crypto/ocsp"

	"github.com/gr33nbl00d/caddy-revocation-validator/config"

	"verif/harness/lab/origin"
	"verif/harness/lab/pki"
	"verif/harness/lab/report"
	"verif/harness/lab/sut"
	"verif/harness/lab/world"
)

var behaviours = []string{"good", "revoked", "unknown", "http500", "garbage", "refused", "other-serial-revoked", "other-serial-good", "ldap", "https-untrusted"}

func isHTTP(b string) bool { return b != "ldap" }
func authentic(b string) bool {
	return b == "good" || b == "revoked" || b == "unknown"
}

type cfgKey struct {
	Mode   string
	Strict bool
	Cache  string
}

// expected verdict of a fresh (uncached) query
func expectFresh(list []string, strict bool) (reject bool, decisive int) {
	nHTTP := 0
	for i, b := range list {
		if !isHTTP(b) {
			continue
		}
		nHTTP++
		if authentic(b) {
			return b == "revoked", i
		}
	}
	return strict && nHTTP > 0, -1
}

func main() {
	run := report.New("C02", "exploration")
	run.Rule("case = responder list (all lists of length 0..2 over 10 behaviours exhaustively, length 3 sampled/thorough) x client-certificate AKI form{keyIdentifier, keyIdentifier+issuer+serial, issuer+serial; a keyIdentifier matching no certificate where no responder is authentic} x aia_strict x default_cache_duration{0,1h} x mode{unset,prefer_ocsp,prefer_crl,ocsp_only}; two calls per case (second with every responder made unavailable); oracle = reference walk (first http* responder with an authentic answer decides; none => reject iff strict and >=1 http* responder named) + cache rule for the second call, checked against the responder hit log; non-trivial = some responder was contacted or the strict branch decided; distinct = case descriptor")
	run.Assume("authentic = signed by the issuing CA for this serial, response status successful (the authenticity dimension itself is C05's)")
	scratch, _ := report.Scratch("C02")
	sut.QuietStderr(filepath.Join(scratch, "stderr.log"))

	var cfgs []cfgKey
	for _, m := range []string{"", "prefer_ocsp", "prefer_crl", "ocsp_only"} {
		for _, s := range []bool{false, true} {
			for _, c := range []string{"", "1h", "nextUpdate"} {
				cfgs = append(cfgs, cfgKey{m, s, c})
			}
		}
	}
	// lists
	var lists [][]string
	lists = append(lists, []string{})
	for _, a := range behaviours {
		lists = append(lists, []string{a})
	}
	for _, a := range behaviours {
		for _, b := range behaviours {
			lists = append(lists, []string{a, b})
		}
	}
	exhaustive2 := len(lists)
	rng := rand.New(rand.NewSource(run.Seed))
	if run.Thorough() {
		for _, a := range behaviours {
			for _, b := range behaviours {
				for _, c := range behaviours {
					lists = append(lists, []string{a, b, c})
				}
			}
		}
	} else {
		for i := 0; i < 60; i++ {
			lists = append(lists, []string{behaviours[rng.Intn(10)], behaviours[rng.Intn(10)], behaviours[rng.Intn(10)]})
		}
	}

	si, sn, isShard := report.Shard()
	if !isShard {
		run.RunShards(8, scratch)
		run.Set("lists_up_to_length_2", exhaustive2)
		run.Set("configs", len(cfgs))
		run.Exhaustive(false)
		run.Finish(500)
		return
	}

	w := world.New(fmt.Sprintf("C02-%d", si))
	defer w.Close()
	// every other worker process has a responder that delivers each answer in two pieces
	w.OCSP.Fragment.Store(si%2 == 1)
	// https responder with a certificate nobody trusts
	tlsSrv := httptest.NewUnstartedServer(http.HandlerFunc(func(rw http.ResponseWriter, r *http.Request) { rw.WriteHeader(200) }))
	tlsSrv.TLS = &tls.Config{}
	tlsSrv.StartTLS()
	defer tlsSrv.Close()
	refused := origin.RefusedURL("/ocsp")

	var mu sync.Mutex
	behaviourOf := map[string]string{} // path -> behaviour
	w.OCSP.SetDefault(origin.Func(func(req []byte) (int, []byte) { return 500, []byte("unset") }))
	mkBehaviour := func(b string, withNextUpdate bool) origin.Behaviour {
		switch b {
		case "good", "revoked", "unknown":
			st := map[string]int{"good": ocsp.Good, "revoked": ocsp.Revoked, "unknown": ocsp.Unknown}[b]
			return world.Responder(w.Int, nil, nil, func(*big.Int) world.OCSPStatus {
				s := world.OCSPStatus{Status: st}
				if withNextUpdate {
					s.NextUpdate = time.Now().Add(time.Hour)
				}
				return s
			})
		case "other-serial-revoked", "other-serial-good":
			st := ocsp.Revoked
			if b == "other-serial-good" {
				st = ocsp.Good
			}
			return origin.Func(func(req []byte) (int, []byte) {
				r, err := ocsp.ParseRequest(req)
				if err != nil {
					return 400, nil
				}
				other := new(big.Int).Add(r.SerialNumber, big.NewInt(1))
				body, _ := world.MakeResponse(w.Int, nil, nil, other, world.OCSPStatus{Status: st})
				return 200, body
			})
		case "garbage":
			return origin.Behaviour{Kind: "good", Body: []byte("\x30\x03\x0a\x01\x00 this is not an ocsp response"), CType: "application/ocsp-response"}
		}
		return origin.Status(500, []byte("<html>error</html>"))
	}
	_ = mu
	_ = behaviourOf

	caseN := 0
	for ci, k := range cfgs {
		if ci%sn != si {
			continue
		}
		workDir := filepath.Join(scratch, fmt.Sprintf("wd%d", ci))
		_ = os.MkdirAll(workDir, 0755)
		cfg := sut.CRLCfg(workDir, "memory", "verify", "fetch_actively", false, "")
		dur := k.Cache
		if dur == "nextUpdate" {
			dur = "" // no default duration: entries live until the responses' nextUpdate (+ skew)
		}
		intPEM := pki.WritePEM(filepath.Join(scratch, fmt.Sprintf("int-%d.pem", si)), w.Int.Cert)
		v, err := sut.Provision(sut.Config{Mode: k.Mode, CRL: cfg, OCSP: &config.OCSPConfig{OCSPAIAStrict: k.Strict, DefaultCacheDuration: dur, TrustedResponderCertsFiles: []string{intPEM}}})
		if err != nil {
			run.Violation("provision-failed", fmt.Sprintf("%+v: %v", k, err), nil)
			continue
		}
		for li, list := range lists {
			caseN++
			prefix := fmt.Sprintf("/k%d/l%d", ci, li)
			var aia []string
			var paths []string
			for ri, b := range list {
				p := fmt.Sprintf("%s/Responder-%d", prefix, ri) // letter case in the path is significant
				switch b {
				case "refused":
					aia = append(aia, refused)
					paths = append(paths, "")
				case "ldap":
					aia = append(aia, "ldap://ldap.example.org/ocsp")
					paths = append(paths, "")
				case "https-untrusted":
					aia = append(aia, tlsSrv.URL+"/ocsp")
					paths = append(paths, "")
				default:
					w.OCSP.Set(p, mkBehaviour(b, k.Cache == "nextUpdate"))
					aia = append(aia, w.OCSP.URL(p))
					paths = append(paths, p)
				}
			}
			serial := pki.NextSerial()
			// authorityKeyIdentifier of the client certificate: keyIdentifier only / OpenSSL's long form /
			// issuer + serial only
			akiForm := []string{"", "long", "issuer-serial"}[(li/4)%3]
			anyAuthentic := false
			for _, b := range list {
				anyAuthentic = anyAuthentic || authentic(b)
			}
			if !anyAuthentic && li%2 == 1 {
				// nobody can give an authentic answer anyway; the client certificate's key identifier
				// matches no certificate of the chain, so not even the issuer is found
				akiForm = "keyid-mismatch"
			}
			chain := w.LeafAKI(serial, nil, aia, akiForm)
			desc := fmt.Sprintf("mode=%q strict=%v cache=%q responders=[%s] aki=%s", k.Mode, k.Strict, k.Cache, strings.Join(list, ","), map[string]string{"": "keyid"}[akiForm]+akiForm)
			hitsBefore := countHits(w.OCSP, prefix)
			var chains [][]*x509.Certificate
			shape := []string{"leaf-int-root", "leaf-int", "leaf-only", "two-chains"}[li%4]
			switch shape {
			case "leaf-int":
				chains = [][]*x509.Certificate{chain[:2]}
			case "leaf-only":
				chains = [][]*x509.Certificate{chain[:1]}
			case "two-chains":
				chains = [][]*x509.Certificate{chain, chain[:2]}
			default:
				chains = [][]*x509.Certificate{chain}
			}
			desc += " chain=" + shape
			err1 := v.Verify(chains...)
			hits1 := countHits(w.OCSP, prefix) - hitsBefore
			wantReject, decisive := expectFresh(list, k.Strict)
			run.Eval(1)
			rp := &report.Replay{Case: map[string]any{"case": desc, "first_call_error": errString(err1), "hits_first_call": hits1}}
			ok := true
			if (err1 != nil) != wantReject {
				ok = false
				key := "first-call." + classify(list, decisive) + "." + map[bool]string{true: "wrongly-accepted", false: "wrongly-rejected"}[wantReject]
				run.Violation(key, desc+" → "+errString(err1), rp)
			}
			// second call: every scripted responder now unavailable
			for _, p := range paths {
				if p != "" {
					w.OCSP.Set(p, origin.Status(500, []byte("<html>down</html>")))
				}
			}
			h2 := countHits(w.OCSP, prefix)
			err2 := v.Verify(chains...)
			hits2 := countHits(w.OCSP, prefix) - h2
			nHTTP := 0
			for _, b := range list {
				if isHTTP(b) {
					nHTTP++
				}
			}
			var want2 bool
			cached := k.Cache != "" && decisive >= 0
			if cached {
				want2 = wantReject
			} else {
				want2 = k.Strict && nHTTP > 0
			}
			run.Eval(1)
			if (err2 != nil) != want2 {
				ok = false
				key := "second-call." + map[bool]string{true: "cached", false: "uncached"}[cached] + "." + map[bool]string{true: "wrongly-accepted", false: "wrongly-rejected"}[want2]
				run.Violation(key, desc+" second call → "+errString(err2), rp)
			}
			if cached && hits2 != 0 {
				ok = false
				run.Violation("second-call.cached-but-responder-contacted", fmt.Sprintf("%s: %d responder hits on the second call although a valid cache entry exists", desc, hits2), rp)
			}
			if !cached && k.Cache == "" && decisive >= 0 && hits2 == 0 {
				ok = false
				run.Violation("second-call.cache-duration-zero-but-served-from-cache", desc+": no responder hit on the second call with default_cache_duration 0 and no nextUpdate", rp)
			}
			if ok && (hits1 > 0 || (k.Strict && nHTTP > 0)) {
				run.NonTrivial(desc)
			}
			run.Count("responder_hits", int64(hits1+hits2))
			if caseN%300 == 1 {
				run.Sample(map[string]any{"case": desc, "verdict1": errString(err1), "verdict2": errString(err2), "hits1": hits1, "hits2": hits2})
			}
		}
		_ = v.Cleanup()
		_ = os.RemoveAll(workDir)
	}
	_ = x509.Certificate{}
	run.FinishShard()
}

func classify(list []string, decisive int) string {
	if decisive >= 0 {
		return "decided-by-" + list[decisive]
	}
	if len(list) == 0 {
		return "no-responder"
	}
	return "no-authentic-answer"
}

func errString(e error) string {
	if e == nil {
		return "accepted"
	}
	s := e.Error()
	if len(s) > 100 {
		s = s[:100]
	}
	return "rejected: " + s
}

func countHits(o *origin.Origin, prefix string) int {
	n := 0
	for _, h := range o.Hits() {
		if strings.HasPrefix(h.Path, prefix+"/") {
			n++
		}
	}
	return n
}
