// c20: work-directory discipline and clean lifecycle — (A) syscall monitor (strace) over a
// scenario with hostile location strings: every mutating path syscall must resolve inside
// work_dir; (B) one store per distinct location, same store after restart; (C) lifecycle
// histories: no temporary artefacts after any event, live stores and foreign files intact;
// (D) provision/cleanup cycles leave goroutines, descriptors and the work_dir registry clean.
package main

import (
	"bufio"
	"crypto/ecdsa"
	"crypto/sha256"
	"crypto/x509"
	"encoding/hex"
	"encoding/json"
	"fmt"
	"math/big"
	"math/rand"
	"net/url"
	"os"
	"os/exec"
	"path/filepath"
	"regexp"
	"runtime"
	"runtime/pprof"
	"sort"
	"strings"
	"time"

	"verif/harness/lab/crlgen"
	"verif/harness/lab/gen"
	"verif/harness/lab/l2"
	"verif/harness/lab/origin"
	"verif/harness/lab/pki"
	"verif/harness/lab/report"
	"verif/harness/lab/sut"
	"verif/harness/lab/world"
)

var tmpRe = regexp.MustCompile(`^crl_.*_tmp$`)

// hostile path suffixes for CDP URLs (after http://host:port)
func hostilePaths() []string {
	long := "/" + strings.Repeat("a/", 2000) + "x.crl"
	return []string{
		"/plain.crl",
		"/../../../etc/cron.d/evil.crl",
		"/a/../../outside.crl",
		"/%2e%2e%2f%2e%2e%2fwork_dir2%2fevil",
		"/..%2f..%2fdecoy-store",
		"/a%00b.crl",
		"/back%5Cslash%5C..%5C..%5Cx.crl",
		"/with%20space%20and%0Anewline.crl",
		"/%F0%9F%94%A5/%E4%B8%AD%E6%96%87.crl",
		"/;rm%20-rf%20$HOME.crl",
		"/q.crl?file=../../x&a=b",
		"/frag.crl#../../x",
		"//double//slash//x.crl",
		"/./dot/./segments/../x.crl",
		long,
	}
}

// ------------------------------------------------------------------ child for the syscall monitor

type childCfg struct {
	Sandbox string // contains work_dir, inputs, report
	Backend string
}

func loadCA(dir string) (*pki.CA, *x509.Certificate) {
	rootDER, _ := os.ReadFile(filepath.Join(dir, "root.der"))
	intDER, _ := os.ReadFile(filepath.Join(dir, "int.der"))
	keyDER, _ := os.ReadFile(filepath.Join(dir, "int.key"))
	root, _ := x509.ParseCertificate(rootDER)
	in, _ := x509.ParseCertificate(intDER)
	key, _ := x509.ParseECPrivateKey(keyDER)
	return &pki.CA{Cert: in, Key: key}, root
}

func childMain(cfgPath string) {
	var cfg childCfg
	b, _ := os.ReadFile(cfgPath)
	_ = json.Unmarshal(b, &cfg)
	reportDir := filepath.Join(cfg.Sandbox, "report")
	sut.QuietStderr(filepath.Join(reportDir, "stderr.log"))
	_ = os.Chdir(cfg.Sandbox)
	ca, root := loadCA(filepath.Join(cfg.Sandbox, "inputs"))
	org := origin.New()
	defer org.Close()
	rng := rand.New(rand.NewSource(7))
	good := gen.SpecFor(ca, gen.Entries(rng, gen.Opts{N: 30, SerialWidth: 8})).Build(ca.Key).DER
	good2 := gen.SpecFor(ca, gen.Entries(rng, gen.Opts{N: 40, SerialWidth: 8})).Build(ca.Key).DER
	org.SetDefault(origin.Good(good))
	wd := filepath.Join(cfg.Sandbox, "work_dir")
	// configured files with awkward names (they live in inputs/, reading them is fine)
	var files []string
	ents, _ := os.ReadDir(filepath.Join(cfg.Sandbox, "inputs", "crls"))
	for _, e := range ents {
		files = append(files, filepath.Join(cfg.Sandbox, "inputs", "crls", e.Name()))
	}
	// one of them through a relative path with dot segments
	if len(files) > 0 {
		files[0] = "inputs/crls/../crls/" + filepath.Base(files[0])
	}
	opts := l2.Opts{WorkDir: wd, Storage: cfg.Backend, SigMode: "verify", Fetch: "actively", CRLFiles: files,
		CRLUrls: []string{org.URL("/configured/../configured-url.crl"), org.URL("/ünïcode/配置.crl")}, Trusted: []*x509.Certificate{ca.Cert}}
	chk, err := l2.Start(opts)
	out := map[string]any{}
	if err != nil {
		out["provision_err"] = err.Error()
	} else {
		ask := func(p string) {
			leaf := ca.Leaf(pki.NextSerial(), []string{org.URL("") + p}, nil)
			_, _ = chk.Ask([]*x509.Certificate{leaf, ca.Cert, root})
		}
		for _, p := range hostilePaths() {
			ask(p)
		}
		// a CDP list mixing schemes and an unparsable URL
		leaf := ca.Leaf(pki.NextSerial(), []string{"ldap://x/../../y", "file:///etc/passwd", org.URL("/mixed.crl")}, nil)
		_, _ = chk.Ask([]*x509.Certificate{leaf, ca.Cert, root})
		// refresh ok, refresh with garbage / truncated, then ok again
		org.SetDefault(origin.Good(good2))
		chk.Refresh()
		org.SetDefault(origin.Garbage())
		chk.Refresh()
		org.SetDefault(origin.Status(500, []byte("x")))
		chk.Refresh()
		for _, p := range hostilePaths()[:4] {
			ask(p + ".second")
		}
		org.SetDefault(origin.Good(good))
		chk.Refresh()
		// restart on the same work_dir, more handshakes, cleanup
		if err := chk.Restart(); err != nil {
			out["restart_err"] = err.Error()
		} else {
			for _, p := range hostilePaths() {
				ask(p)
			}
			chk.Refresh()
		}
		chk.Stop()
	}
	ob, _ := json.Marshal(out)
	_ = os.WriteFile(filepath.Join(reportDir, "child.json"), ob, 0644)
}

// ------------------------------------------------------------------ strace log analysis

var (
	reCall   = regexp.MustCompile(`^(\d+)\s+(\w+)\((.*)\)\s+=\s+(-?\d+)(.*)$`)
	reDirfd  = regexp.MustCompile(`^(AT_FDCWD|\d+)<([^>]*)>$`)
	reString = regexp.MustCompile(`^"((?:[^"\\]|\\.)*)"(\.\.\.)?$`)
)

func splitArgs(s string) []string {
	var out []string
	depth, inStr, esc := 0, false, false
	cur := strings.Builder{}
	for _, r := range s {
		switch {
		case esc:
			esc = false
			cur.WriteRune(r)
		case inStr && r == '\\':
			esc = true
			cur.WriteRune(r)
		case r == '"':
			inStr = !inStr
			cur.WriteRune(r)
		case !inStr && (r == '<' || r == '(' || r == '{' || r == '['):
			depth++
			cur.WriteRune(r)
		case !inStr && (r == '>' || r == ')' || r == '}' || r == ']'):
			depth--
			cur.WriteRune(r)
		case !inStr && depth == 0 && r == ',':
			out = append(out, strings.TrimSpace(cur.String()))
			cur.Reset()
		default:
			cur.WriteRune(r)
		}
	}
	if cur.Len() > 0 {
		out = append(out, strings.TrimSpace(cur.String()))
	}
	return out
}

func unquote(s string) (string, bool) {
	m := reString.FindStringSubmatch(s)
	if m == nil {
		return "", false
	}
	v := m[1]
	// strace escapes: \n \t \" \\ and octal / hex
	var b strings.Builder
	for i := 0; i < len(v); i++ {
		if v[i] != '\\' || i+1 >= len(v) {
			b.WriteByte(v[i])
			continue
		}
		i++
		switch v[i] {
		case 'n':
			b.WriteByte('\n')
		case 't':
			b.WriteByte('\t')
		case 'r':
			b.WriteByte('\r')
		case 'x':
			if i+2 < len(v) {
				var x byte
				fmt.Sscanf(v[i+1:i+3], "%02x", &x)
				b.WriteByte(x)
				i += 2
			}
		case '0', '1', '2', '3', '4', '5', '6', '7':
			j := i
			var x int
			for j < len(v) && j < i+3 && v[j] >= '0' && v[j] <= '7' {
				x = x*8 + int(v[j]-'0')
				j++
			}
			b.WriteByte(byte(x))
			i = j - 1
		default:
			b.WriteByte(v[i])
		}
	}
	return b.String(), m[2] == ""
}

type mutation struct {
	Call  string
	Paths []string
	Line  string
}

// mutations extracts successful mutating path syscalls with resolved absolute paths.
func mutations(straceOut string, cwd string) ([]mutation, int) {
	var out []mutation
	total := 0
	sc := bufio.NewScanner(strings.NewReader(straceOut))
	sc.Buffer(make([]byte, 1<<20), 1<<24)
	resolve := func(dirfd, p string) string {
		if filepath.IsAbs(p) {
			return filepath.Clean(p)
		}
		base := cwd
		if m := reDirfd.FindStringSubmatch(dirfd); m != nil {
			base = m[2]
		}
		return filepath.Clean(filepath.Join(base, p))
	}
	for sc.Scan() {
		line := sc.Text()
		m := reCall.FindStringSubmatch(line)
		if m == nil {
			continue
		}
		call, args, ret := m[2], splitArgs(m[3]), m[4]
		if strings.HasPrefix(ret, "-") {
			continue // failed calls change nothing
		}
		total++
		mu := mutation{Call: call, Line: line}
		str := func(i int) string {
			if i >= len(args) {
				return ""
			}
			s, _ := unquote(args[i])
			return s
		}
		switch call {
		case "openat":
			if len(args) < 3 {
				continue
			}
			flags := args[2]
			if !(strings.Contains(flags, "O_CREAT") || strings.Contains(flags, "O_TRUNC") || strings.Contains(flags, "O_WRONLY") || strings.Contains(flags, "O_RDWR") || strings.Contains(flags, "O_APPEND")) {
				continue
			}
			mu.Paths = []string{resolve(args[0], str(1))}
		case "creat", "mkdir", "unlink", "rmdir", "truncate":
			mu.Paths = []string{resolve("", str(0))}
		case "mkdirat", "unlinkat":
			mu.Paths = []string{resolve(args[0], str(1))}
		case "rename", "link", "symlink":
			mu.Paths = []string{resolve("", str(0)), resolve("", str(1))}
			if call == "symlink" {
				mu.Paths = mu.Paths[1:]
			}
		case "renameat", "renameat2", "linkat":
			if len(args) < 4 {
				continue
			}
			mu.Paths = []string{resolve(args[0], str(1)), resolve(args[2], str(3))}
		case "symlinkat":
			if len(args) < 3 {
				continue
			}
			mu.Paths = []string{resolve(args[1], str(2))}
		case "ftruncate":
			if m2 := reDirfd.FindStringSubmatch(args[0]); m2 != nil {
				mu.Paths = []string{m2[2]}
			}
		default:
			continue
		}
		out = append(out, mu)
	}
	return out, total
}

func treeHash(root string, skip ...string) string {
	h := sha256.New()
	_ = filepath.Walk(root, func(p string, info os.FileInfo, err error) error {
		if err != nil {
			return nil
		}
		for _, s := range skip {
			if p == s || strings.HasPrefix(p, s+string(os.PathSeparator)) {
				if info.IsDir() {
					return filepath.SkipDir
				}
				return nil
			}
		}
		fmt.Fprintf(h, "%s|%d|%v|", strings.TrimPrefix(p, root), info.Size(), info.IsDir())
		if !info.IsDir() {
			b, _ := os.ReadFile(p)
			h.Write(b)
		}
		return nil
	})
	return hex.EncodeToString(h.Sum(nil))
}

// ------------------------------------------------------------------ main

func main() {
	if len(os.Args) >= 3 && os.Args[1] == "child" {
		childMain(os.Args[2])
		return
	}
	run := report.New("C20", "exploration")
	run.Rule("(A) a child process running the checker over hostile location strings (path traversal, encoded separators, NUL, backslashes, 4 KiB paths, unicode, query/fragment, mixed schemes; configured files with awkward names) incl. loads, refreshes, failures, restart and cleanup is traced with strace -f -y; every successful mutating path syscall must resolve inside work_dir (or the child's report directory), decoy siblings and inputs must hash the same before and after; (B) one store directory per distinct location, and after a restart the same directories with zero origin hits; (C) histories over {load ok, load fail (garbage, HTTP 500, bad signature), refresh ok, refresh fail, refresh with an older list / the same bytes, restart with planted crl_*_tmp leftovers, retry of a location whose first load failed} with foreign files present: after every event no crl_*_tmp entry, no live store lost, foreign files intact; (C)(D)(E) run with work_dir spelt in five ways (plain, trailing slash, dot segment, doubled slash, symbolic link); (D) k provision/cleanup cycles: no goroutine with a repository frame, no descriptor under work_dir, work_dir can be provisioned again, counts constant. non-trivial = sub-check that observed at least one mutating syscall / store directory / event; distinct = sub-check descriptor")
	run.Assume("strace sees every path syscall of the traced process tree (-f) with resolved descriptors (-y)", "after Cleanup goroutines are given up to 3 s to drain before they count as leaked")
	scratch, _ := report.Scratch("C20")
	bin := os.Getenv("VERIF_ENGINE_BIN_NORACE")
	if bin == "" {
		bin = os.Getenv("VERIF_ENGINE_BIN")
	}
	if bin == "" {
		bin, _ = os.Executable()
	}
	root := pki.NewRoot(pki.CertOpts{CN: "C20 root"})
	in := root.Issue(pki.CertOpts{CN: "C20 issuing", IsCA: true})
	rng := rand.New(rand.NewSource(run.Seed))

	// ---------------- (A) syscall monitor
	for _, backend := range []string{"disk", "memory"} {
		sb := filepath.Join(scratch, "sandbox-"+backend)
		for _, d := range []string{"work_dir", "work_dir2", "work_dirx/sub", "inputs/crls", "report", "decoy-store"} {
			_ = os.MkdirAll(filepath.Join(sb, d), 0755)
		}
		_ = os.WriteFile(filepath.Join(sb, "work_dir2", "keep.txt"), []byte("decoy"), 0644)
		_ = os.WriteFile(filepath.Join(sb, "decoy-store", "CURRENT"), []byte("decoy"), 0644)
		_ = os.WriteFile(filepath.Join(sb, "outside.crl"), []byte("decoy"), 0644)
		_ = os.WriteFile(filepath.Join(sb, "inputs", "root.der"), root.Cert.Raw, 0644)
		_ = os.WriteFile(filepath.Join(sb, "inputs", "int.der"), in.Cert.Raw, 0644)
		kb, _ := x509.MarshalECPrivateKey(in.Key.(*ecdsa.PrivateKey))
		_ = os.WriteFile(filepath.Join(sb, "inputs", "int.key"), kb, 0600)
		crl := gen.SpecFor(in, gen.Entries(rng, gen.Opts{N: 10, SerialWidth: 8})).Build(in.Key).DER
		for _, name := range []string{"plain.crl", "with space.crl", "ünïcode-名.crl", "..hidden..crl", "back\\slash.crl", "crl_looks_like_tmp", "%2e%2e%2fx.crl", strings.Repeat("long", 50) + ".crl"} {
			_ = os.WriteFile(filepath.Join(sb, "inputs", "crls", name), crlgen.PEM(crl, "\n", true), 0644)
		}
		wd := filepath.Join(sb, "work_dir")
		_ = os.WriteFile(filepath.Join(wd, "foreign-keep.txt"), []byte("keep"), 0644)
		before := treeHash(sb, wd, filepath.Join(sb, "report"))
		cfgPath := filepath.Join(sb, "report", "cfg.json")
		cb, _ := json.Marshal(childCfg{Sandbox: sb, Backend: backend})
		_ = os.WriteFile(cfgPath, cb, 0644)
		straceOut := filepath.Join(sb, "report", "strace.txt")
		cmd := exec.Command("strace", "-f", "-y", "-s", "8192", "-e", "trace=openat,creat,mkdir,mkdirat,rename,renameat,renameat2,unlink,unlinkat,rmdir,link,linkat,symlink,symlinkat,truncate,ftruncate", "-o", straceOut, bin, "child", cfgPath)
		clog, _ := os.Create(filepath.Join(sb, "report", "child.log"))
		cmd.Stdout, cmd.Stderr = clog, clog
		cmd.Env = append(os.Environ(), "TMPDIR="+filepath.Join(sb, "report"))
		err := cmd.Run()
		clog.Close()
		run.Eval(1)
		desc := "syscall-monitor backend=" + backend
		if err != nil {
			lb, _ := os.ReadFile(filepath.Join(sb, "report", "child.log"))
			run.Inconclusive(fmt.Sprintf("%s: traced child failed: %v %s", desc, err, string(lb[:min(len(lb), 400)])))
			continue
		}
		cj, _ := os.ReadFile(filepath.Join(sb, "report", "child.json"))
		if strings.Contains(string(cj), "_err") {
			run.Violation("syscall-monitor.scenario-failed."+backend, desc+": "+string(cj), nil)
			continue
		}
		sb2, _ := os.ReadFile(straceOut)
		muts, total := mutations(string(sb2), sb)
		outside := 0
		inside := 0
		for _, m := range muts {
			for _, p := range m.Paths {
				okp := p == wd || strings.HasPrefix(p, wd+"/") || strings.HasPrefix(p, filepath.Join(sb, "report")+"/") || p == "/dev/null" || strings.HasPrefix(p, "/dev/") || strings.HasPrefix(p, "/proc/")
				if okp {
					inside++
					continue
				}
				outside++
				run.Violation("syscall-monitor.mutation-outside-work_dir."+m.Call+"."+backend, fmt.Sprintf("%s: %s touched %s which is outside work_dir: %s", desc, m.Call, p, trunc(m.Line, 400)), &report.Replay{Case: desc, Files: map[string][]byte{"strace-line.txt": []byte(m.Line)}})
			}
		}
		after := treeHash(sb, wd, filepath.Join(sb, "report"))
		if before != after {
			run.Violation("syscall-monitor.sandbox-changed-outside-work_dir."+backend, desc+": decoy siblings / inputs differ after the run", nil)
		}
		if b, err := os.ReadFile(filepath.Join(wd, "foreign-keep.txt")); err != nil || string(b) != "keep" {
			run.Violation("syscall-monitor.foreign-file-in-work_dir-damaged."+backend, desc+": foreign-keep.txt changed or vanished", nil)
		}
		left := listTmp(wd)
		if len(left) > 0 {
			run.Violation("syscall-monitor.temporary-artefacts-left."+backend, fmt.Sprintf("%s: %v remain after cleanup", desc, left), nil)
		}
		run.Count("syscalls_traced", int64(total))
		run.Count("mutating_path_syscalls_inside_work_dir", int64(inside))
		if inside > 0 && outside == 0 {
			run.NonTrivial(desc)
		}
		run.Sample(map[string]any{"sub_check": desc, "successful_traced_calls": total, "mutating_calls": len(muts), "inside_work_dir_or_report": inside, "outside": outside})
	}

	// ---------------- (B)(C)(D) in-process
	sut.QuietStderr(filepath.Join(scratch, "stderr.log"))
	w := world.New("C20")
	defer w.Close()
	good := func(n int) []byte {
		return gen.SpecFor(w.Int, gen.Entries(rng, gen.Opts{N: n, SerialWidth: 8})).Build(w.Int.Key).DER
	}
	w.CRL.SetDefault(origin.Good(good(20)))

	// (B) one store per distinct location; same store after restart, zero hits
	{
		wd := filepath.Join(scratch, "wdB")
		_ = os.MkdirAll(wd, 0755)
		chk, err := l2.Start(l2.Opts{WorkDir: wd, Storage: "disk", SigMode: "verify", Fetch: "actively", Strict: true})
		if err != nil {
			run.Violation("stores.provision-failed", err.Error(), nil)
		} else {
			locs := append([]string(nil), hostilePaths()...)
			locs = append(locs, "/case.crl", "/CASE.crl", "/q.crl?a=1", "/q.crl?a=2", "/plain.crl/",
				// an encoded separator is data, not a separator: these are two locations
				"/crl/ca%2Fsub.crl", "/crl/ca/sub.crl", "/crl%2Fflat.crl", "/crl/flat.crl")
			distinct := map[string]bool{}
			var chains [][]*x509.Certificate
			for _, p := range locs {
				u := w.CRL.URL("") + p
				if pu, err := url.Parse(u); err == nil {
					distinct[pu.String()] = true
				}
				ch := w.Leaf(pki.NextSerial(), []string{u}, nil)
				chains = append(chains, ch)
				if _, err := chk.Ask(ch); err != nil {
					run.Violation("stores.healthy-location-not-loaded", fmt.Sprintf("location %q: %v", trunc(p, 80), err), nil)
				}
			}
			// equal-after-normalisation pair: scheme case
			up := strings.Replace(w.CRL.URL("/plain.crl"), "http://", "HTTP://", 1)
			chU := w.Leaf(pki.NextSerial(), []string{up}, nil)
			_, _ = chk.Ask(chU)
			dirs := storeDirs(wd)
			run.Eval(len(locs))
			if len(dirs) != len(distinct) {
				run.Violation("stores.count-differs-from-distinct-locations", fmt.Sprintf("%d distinct locations but %d store directories", len(distinct), len(dirs)), nil)
			}
			hitsBefore := w.CRL.HitCount("")
			_ = chk.Restart()
			w.CRL.SetDefault(origin.Status(500, []byte("down")))
			denied := 0
			for _, ch := range chains {
				if _, err := chk.Ask(ch); err != nil {
					denied++
				}
			}
			dirs2 := storeDirs(wd)
			if denied > 0 {
				run.Violation("stores.not-found-again-after-restart", fmt.Sprintf("%d of %d locations are not in force after a restart with the origin down (strict)", denied, len(chains)), nil)
			}
			if strings.Join(dirs, ",") != strings.Join(dirs2, ",") {
				run.Violation("stores.directories-changed-by-restart", fmt.Sprintf("before %d dirs, after %d", len(dirs), len(dirs2)), nil)
			}
			if h := w.CRL.HitCount("") - hitsBefore; h != 0 && denied == 0 {
				run.Count("origin_hits_after_restart", int64(h))
			}
			if len(dirs) > 0 && denied == 0 {
				run.NonTrivial("stores: one directory per distinct location, same after restart")
			}
			run.Sample(map[string]any{"sub_check": "stores", "locations": len(locs), "distinct": len(distinct), "store_directories": len(dirs)})
			chk.Stop()
			w.CRL.SetDefault(origin.Good(good(20)))
		}
	}

	// (C) lifecycle histories
	// "retry-failed-location": a location whose first load failed earlier is healthy now and lists the
	// certificate that asks for it
	events := []string{"load-ok", "load-garbage", "load-http500", "load-badsig", "refresh-ok", "refresh-garbage", "refresh-badsig", "refresh-older", "refresh-same", "restart-with-leftovers", "retry-failed-location", "retry-failed-location"}
	nh := 60
	if run.Thorough() {
		nh = 600
	}
	for hi := 0; hi < nh; hi++ {
		backend := []string{"disk", "memory"}[hi%2]
		wd := filepath.Join(scratch, fmt.Sprintf("wdC%d", hi))
		_ = os.MkdirAll(filepath.Join(wd, "sub"), 0755)
		foreign := map[string]string{"crl_keep.txt": "a", "mycrl_x_tmp": "b", "sub/crl_x_tmp": "c", "crl_tmp": "d", "CRL_X_TMP": "e", "xcrl__tmp": "f"}
		for n, c := range foreign {
			_ = os.WriteFile(filepath.Join(wd, n), []byte(c), 0644)
		}
		wdForm := wdForms[(hi/2)%len(wdForms)]
		chk, err := l2.Start(l2.Opts{WorkDir: spell(wd, wdForm), Storage: backend, SigMode: "verify", Fetch: "actively"})
		if err != nil {
			run.Violation("lifecycle.provision-failed", "work_dir form "+wdForm+": "+err.Error(), nil)
			continue
		}
		run.Distinct("work_dir_forms", wdForm)
		var hist []string
		var failedPaths []string
		loadedPaths := map[string]bool{}
		liveDirs := map[string]bool{}
		np := 0
		okHist := true
		check := func(ev string) bool {
			if left := listTmp(wd); len(left) > 0 {
				run.Violation("lifecycle.temporary-artefacts-left.after-"+ev+"."+backend, fmt.Sprintf("history %v: %v remain in work_dir after the event returned", hist, left), &report.Replay{Case: hist})
				return false
			}
			for n, c := range foreign {
				if b, err := os.ReadFile(filepath.Join(wd, n)); err != nil || string(b) != c {
					run.Violation("lifecycle.foreign-file-damaged.after-"+ev+"."+backend, fmt.Sprintf("history %v: foreign file %s changed or vanished", hist, n), &report.Replay{Case: hist})
					return false
				}
			}
			if backend == "disk" {
				// no store directory that existed after an earlier event may disappear (whatever the
				// naming scheme of store directories is), and there is at least one per loaded location
				have := map[string]bool{}
				for _, d := range storeDirs(wd) {
					have[d] = true
				}
				for d := range liveDirs {
					if !have[d] {
						run.Violation("lifecycle.live-store-lost.after-"+ev, fmt.Sprintf("history %v: store directory %s is gone", hist, d), &report.Replay{Case: hist})
						return false
					}
				}
				if len(have) < len(loadedPaths) {
					run.Violation("lifecycle.fewer-stores-than-loaded-locations.after-"+ev, fmt.Sprintf("history %v: %d loaded locations but %d store directories", hist, len(loadedPaths), len(have)), &report.Replay{Case: hist})
					return false
				}
				for d := range have {
					liveDirs[d] = true
				}
			}
			return true
		}
		for step := 0; step < 6 && okHist; step++ {
			ev := events[rng.Intn(len(events))]
			hist = append(hist, ev)
			run.Eval(1)
			switch {
			case strings.HasPrefix(ev, "load-"):
				np++
				p := fmt.Sprintf("/h%d-%d.crl", hi, np)
				switch ev {
				case "load-ok":
					w.CRL.Set(p, origin.Good(good(15)))
				case "load-garbage":
					w.CRL.Set(p, origin.Garbage())
				case "load-http500":
					w.CRL.Set(p, origin.Status(500, []byte("x")))
				case "load-badsig":
					d := good(15)
					d[len(d)-1] ^= 1
					w.CRL.Set(p, origin.Good(d))
				}
				_, _ = chk.Ask(w.Leaf(pki.NextSerial(), []string{w.CRL.URL(p)}, nil))
				if ev == "load-ok" {
					loadedPaths[p] = true
				} else {
					failedPaths = append(failedPaths, p)
				}
			case ev == "retry-failed-location":
				if len(failedPaths) == 0 {
					continue
				}
				p := failedPaths[len(failedPaths)-1]
				failedPaths = failedPaths[:len(failedPaths)-1]
				s := gen.SerialOfWidth(rng, 9, false)
				es := append(gen.Entries(rng, gen.Opts{N: 12, SerialWidth: 8}), crlgen.Entry{Serial: s, Date: gen.BaseTime})
				w.CRL.Set(p, origin.Good(gen.SpecFor(w.Int, es).Build(w.Int.Key).DER))
				rev, err := chk.Ask(w.Leaf(s, []string{w.CRL.URL(p)}, nil))
				if !rev {
					run.Violation("lifecycle.location-stays-unusable-after-a-failed-first-load."+backend, fmt.Sprintf("history %v: the location failed to load earlier, is healthy now and lists the certificate, but the certificate is accepted (err=%v)", hist, err), &report.Replay{Case: hist})
					okHist = false
					continue
				}
				loadedPaths[p] = true
				run.Count("retries_of_failed_locations_loaded", 1)
			case strings.HasPrefix(ev, "refresh-"):
				for p := range loadedPaths {
					switch ev {
					case "refresh-ok":
						w.CRL.Set(p, origin.Good(good(18)))
					case "refresh-garbage":
						w.CRL.Set(p, origin.Garbage())
					case "refresh-badsig":
						d := good(18)
						d[len(d)-1] ^= 1
						w.CRL.Set(p, origin.Good(d))
					case "refresh-older":
						// a mirror that lags behind: a genuine list with an earlier thisUpdate and a lower number
						sp := gen.SpecFor(w.Int, gen.Entries(rng, gen.Opts{N: 9, SerialWidth: 8}))
						sp.ThisUpdate = gen.BaseTime.Add(-72 * time.Hour)
						sp.NextUpdate = gen.BaseTime.Add(-48 * time.Hour)
						sp.Exts = [][]byte{crlgen.AKIKeyID(w.Int.Cert.SubjectKeyId), crlgen.CRLNumberExt(big.NewInt(1))}
						w.CRL.Set(p, origin.Good(sp.Build(w.Int.Key).DER))
					case "refresh-same":
						// nothing new was published: the bytes in force are served again
					}
				}
				chk.Refresh()
			case ev == "restart-with-leftovers":
				chk.Stop()
				_ = os.MkdirAll(filepath.Join(wd, "crl_11111111-2222-3333-4444-555555555555_tmp", "inner"), 0755)
				_ = os.WriteFile(filepath.Join(wd, "crl_11111111-2222-3333-4444-555555555555_tmp", "inner", "000001.log"), []byte("x"), 0644)
				_ = os.WriteFile(filepath.Join(wd, "crl_123456_tmp"), []byte("partial download"), 0644)
				n, err := l2.Start(chk.Opts)
				if err != nil {
					run.Violation("lifecycle.reprovision-failed."+backend, fmt.Sprintf("history %v: %v", hist, err), &report.Replay{Case: hist})
					okHist = false
					continue
				}
				chk = n
				if backend == "memory" {
					loadedPaths = map[string]bool{}
				}
			}
			okHist = check(ev)
		}
		chk.Stop()
		if okHist {
			okHist = check("cleanup")
		}
		if okHist {
			run.NonTrivial(fmt.Sprintf("lifecycle %s %v", backend, hist))
		}
		if hi%20 == 0 {
			run.Sample(map[string]any{"sub_check": "lifecycle", "backend": backend, "history": hist})
		}
		_ = os.RemoveAll(wd)
	}

	// (E) work_dir ownership: a second validator on a live work_dir is rejected, its cleanup (Caddy
	// cleans up modules whose Provision failed) must not release the owner's claim
	for _, backend := range []string{"disk", "memory"} {
		wd := filepath.Join(scratch, "wdE-"+backend)
		_ = os.MkdirAll(wd, 0755)
		wdForm := map[string]string{"disk": "trailing-slash", "memory": "dot-segment"}[backend]
		opts := l2.Opts{WorkDir: spell(wd, wdForm), Storage: backend, SigMode: "verify", Fetch: "actively"}
		desc := "work_dir ownership backend=" + backend + " work_dir-form=" + wdForm
		run.Eval(1)
		a, err := l2.Start(opts)
		if err != nil {
			run.Violation("ownership.first-provision-failed."+backend, desc+": "+err.Error(), nil)
			continue
		}
		ok := true
		inflight := filepath.Join(wd, "crl_in-flight-download-of-the-owner_tmp")
		_ = os.WriteFile(inflight, []byte("partial"), 0644)
		for attempt := 1; attempt <= 3 && ok; attempt++ {
			b, err := l2.Start(opts) // l2.Start runs Cleanup on the rejected checker, like Caddy
			if err == nil {
				ok = false
				b.Stop()
				run.Violation("ownership.second-validator-admitted-to-live-work_dir."+backend, fmt.Sprintf("%s: provisioning attempt %d on a work_dir that a live validator owns succeeded", desc, attempt), nil)
			}
			if _, e := os.Stat(inflight); e != nil {
				ok = false
				run.Violation("ownership.owners-temp-artefact-deleted-by-other-validator."+backend, fmt.Sprintf("%s: attempt %d removed a temporary artefact of the live owner", desc, attempt), nil)
			}
		}
		_ = os.Remove(inflight)
		if _, perr := a.Ask(w.Leaf(pki.NextSerial(), []string{w.CRL.URL("/e.crl")}, nil)); perr != nil && ok {
			ok = false
			run.Violation("ownership.owner-disturbed."+backend, desc+": the owner fails after rejected provisioning attempts: "+perr.Error(), nil)
		}
		a.Stop()
		if c, err := l2.Start(opts); err != nil {
			ok = false
			run.Violation("ownership.work_dir-not-released-by-cleanup."+backend, desc+": "+err.Error(), nil)
		} else {
			c.Stop()
		}
		if ok {
			run.NonTrivial(desc)
		}
	}

	// (D) provision/cleanup cycles
	cycles := 20
	if run.Thorough() {
		cycles = 200
	}
	fullCycles := cycles
	for di, dc := range []struct {
		backend, form string
		short         bool
	}{{"disk", "plain", false}, {"memory", "trailing-slash", false}, {"disk", "trailing-slash", true}, {"disk", "symbolic-link", true}, {"memory", "dot-segment", true}, {"disk", "doubled-slash", true}} {
		backend := dc.backend
		cycles := fullCycles
		if dc.short {
			cycles = 4
		}
		wd := filepath.Join(scratch, fmt.Sprintf("wdD%d-%s", di, backend))
		_ = os.MkdirAll(wd, 0755)
		cfgFile := filepath.Join(scratch, "cfgD.crl")
		_ = os.WriteFile(cfgFile, good(10), 0644)
		opts := l2.Opts{WorkDir: spell(wd, dc.form), Storage: backend, SigMode: "verify", Fetch: "actively", Interval: 50 * time.Millisecond, CRLFiles: []string{cfgFile}, CRLUrls: []string{w.CRL.URL("/d.crl")}, Trusted: []*x509.Certificate{w.Int.Cert}}
		var g0, f0 int
		desc := "cycles backend=" + backend + " work_dir-form=" + dc.form
		ok := true
		for k := 0; k < cycles && ok; k++ {
			chk, err := l2.Start(opts)
			run.Eval(1)
			if err != nil {
				run.Violation("cycles.reprovision-failed."+backend, fmt.Sprintf("%s: cycle %d: %v", desc, k, err), nil)
				ok = false
				break
			}
			_, _ = chk.Ask(w.Leaf(pki.NextSerial(), []string{w.CRL.URL("/cdp-d.crl")}, nil))
			time.Sleep(60 * time.Millisecond) // let the real ticker fire at least once
			chk.Stop()
			g := repoGoroutines(3 * time.Second)
			fds := fdsUnder(wd)
			if len(g) > 0 {
				run.Violation("cycles.goroutine-alive-after-cleanup."+backend, fmt.Sprintf("%s: cycle %d: %d goroutines with a repository frame 3 s after Cleanup, e.g. %s", desc, k, len(g), trunc(g[0], 500)), nil)
				ok = false
			}
			if len(fds) > 0 {
				run.Violation("cycles.descriptor-open-after-cleanup."+backend, fmt.Sprintf("%s: cycle %d: descriptors still open under work_dir: %v", desc, k, fds), nil)
				ok = false
			}
			if k == 1 {
				g0, f0 = validatorGoroutines(), countFds()
			}
			if k == cycles-1 && k > 1 {
				// goroutines started by the validator or its storage/cache dependencies (the total
				// number of goroutines in the harness process also contains HTTP connection
				// goroutines of the origin and is only reported)
				g1, f1 := validatorGoroutines(), countFds()
				run.Set("total_goroutines_at_end_"+backend, runtime.NumGoroutine())
				if g1 > g0 || f1 > f0+6 {
					run.Violation("cycles.counts-grow."+backend, fmt.Sprintf("%s: goroutines %d -> %d, descriptors %d -> %d over %d cycles", desc, g0, g1, f0, f1, cycles), nil)
					ok = false
				}
				run.Sample(map[string]any{"sub_check": desc, "cycles": cycles, "goroutines_after_cycle_1": g0, "goroutines_at_end": g1, "fds_after_cycle_1": f0, "fds_at_end": f1})
			}
		}
		if ok {
			run.NonTrivial(desc)
		}
	}
	run.Finish(10)
}

// spell returns a configured work_dir value naming the existing directory real in another way.
func spell(real, form string) string {
	switch form {
	case "trailing-slash":
		return real + "/"
	case "dot-segment":
		return filepath.Dir(real) + "/./" + filepath.Base(real)
	case "doubled-slash":
		return filepath.Dir(real) + "//" + filepath.Base(real)
	case "symbolic-link":
		link := real + "-link"
		_ = os.Remove(link)
		_ = os.Symlink(filepath.Base(real), link)
		return link
	}
	return real
}

var wdForms = []string{"plain", "trailing-slash", "symbolic-link", "dot-segment", "doubled-slash"}

func trunc(s string, n int) string {
	if len(s) > n {
		return s[:n]
	}
	return s
}

func listTmp(wd string) []string {
	var out []string
	ents, _ := os.ReadDir(wd)
	for _, e := range ents {
		if tmpRe.MatchString(e.Name()) {
			out = append(out, e.Name())
		}
	}
	return out
}

func storeDirs(wd string) []string {
	var out []string
	ents, _ := os.ReadDir(wd)
	for _, e := range ents {
		if e.IsDir() && !tmpRe.MatchString(e.Name()) && e.Name() != "sub" {
			out = append(out, e.Name())
		}
	}
	sort.Strings(out)
	return out
}

// repoGoroutines returns the goroutines that still have a repository frame, waiting up to d.
func repoGoroutines(d time.Duration) []string {
	deadline := time.Now().Add(d)
	for {
		var buf strings.Builder
		_ = pprof.Lookup("goroutine").WriteTo(&buf, 2)
		var left []string
		for _, g := range strings.Split(buf.String(), "\n\n") {
			if strings.Contains(g, "caddy-revocation-validator/") && !strings.Contains(g, "main.repoGoroutines") {
				left = append(left, g)
			}
		}
		if len(left) == 0 || time.Now().After(deadline) {
			return left
		}
		time.Sleep(50 * time.Millisecond)
	}
}

// validatorGoroutines counts goroutines with a frame of the repository, goleveldb or cache2go.
// goleveldb's mpoolDrain goroutine lingers for up to one second after DB.Close by design, so the
// count is taken as the minimum seen while polling for up to 3 s.
func validatorGoroutines() int {
	best := -1
	deadline := time.Now().Add(3 * time.Second)
	for {
		var buf strings.Builder
		_ = pprof.Lookup("goroutine").WriteTo(&buf, 2)
		n := 0
		for _, g := range strings.Split(buf.String(), "\n\n") {
			if strings.Contains(g, "main.validatorGoroutines") {
				continue
			}
			if strings.Contains(g, "caddy-revocation-validator/") || strings.Contains(g, "syndtr/goleveldb") || strings.Contains(g, "muesli/cache2go") {
				n++
			}
		}
		if best < 0 || n < best {
			best = n
		}
		if best == 0 || time.Now().After(deadline) {
			return best
		}
		time.Sleep(150 * time.Millisecond)
	}
}

func fdsUnder(dir string) []string {
	var out []string
	ents, _ := os.ReadDir("/proc/self/fd")
	for _, e := range ents {
		t, err := os.Readlink(filepath.Join("/proc/self/fd", e.Name()))
		if err == nil && strings.HasPrefix(t, dir+"/") {
			out = append(out, t)
		}
	}
	return out
}

func countFds() int {
	ents, _ := os.ReadDir("/proc/self/fd")
	return len(ents)
}
