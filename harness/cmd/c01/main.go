// c01: CRL soundness — a certificate listed in a CRL in force is always rejected (L3 monitor).
package main

import (
	"crypto/tls"
	"crypto/x509"
	"fmt"
	"math/big"
	"math/rand"
	"net"
	"os"
	"path/filepath"
	"runtime"
	"sort"
	"strings"
	"sync"
	"time"

	"golang.org/x/crypto/ocsp"

	"github.com/gr33nbl00d/caddy-revocation-validator/config"

	"verif/harness/lab/crlgen"
	"verif/harness/lab/gen"
	"verif/harness/lab/l2"
	"verif/harness/lab/origin"
	"verif/harness/lab/pki"
	"verif/harness/lab/report"
	"verif/harness/lab/sut"
	"verif/harness/lab/world"
)

type caseSpec struct {
	ID       int
	Mode     string // "", prefer_ocsp, prefer_crl, crl_only
	Source   string // crl_files, crl_urls, cdp_active, cdp_background
	Enc      string // der, pem-lf, pem-crlf
	N        int
	Width    int // 0 mixed
	ExtMode  int
	Storage  string
	Second   bool   // a second unrelated CRL is loaded too
	OCSP     string // none, good, unavailable
	OtherCDP bool   // probe certificates carry a CDP of another (healthy, unrelated) CRL
	Chain    string // leaf-int-root | leaf-int | leaf-only | two-chains
	Target2  bool   // the CRL under test is configured after the unrelated one
	Seed     int64
}

func (c caseSpec) desc() string {
	return fmt.Sprintf("mode=%q src=%s enc=%s n=%d width=%d ext=%d store=%s second=%v ocsp=%s othercdp=%v chain=%s target-second=%v", c.Mode, c.Source, c.Enc, c.N, c.Width, c.ExtMode, c.Storage, c.Second, c.OCSP, c.OtherCDP, c.Chain, c.Target2)
}

func encode(der []byte, enc string) []byte {
	switch enc {
	case "pem-lf":
		return crlgen.PEM(der, "\n", true)
	case "pem-crlf":
		return crlgen.PEM(der, "\r\n", true)
	}
	return der
}

func main() {
	run := report.New("C01", "exploration")
	run.Rule("case = (mode, CRL source, encoding, N, serial width, entry-extension content, backend, second CRL, OCSP answer); per case the CRL is served by a healthy origin/file, the reference model (generator spec + signer in chain/trusted) says it is in force; probes = listed serials at chosen positions, each with an unlisted neighbour; oracle: listed => VerifyClientCertificate returns an error; non-trivial = the unlisted neighbour of the same case was accepted (so rejection is due to the listing); distinct = case descriptor + position class")
	run.Assume("the generator's own entry list is the ground truth for 'listed'", "CRLs carry crlExtensions (profile dimension belongs to C06)")
	scratch, cleanup := report.Scratch("C01")
	defer cleanup()
	sut.QuietStderr(filepath.Join(scratch, "stderr.log"))
	rng := rand.New(rand.NewSource(run.Seed))

	modes := []string{"", "prefer_ocsp", "prefer_crl", "crl_only"}
	sources := []string{"crl_files", "crl_urls", "cdp_active", "cdp_background"}
	encs := []string{"der", "pem-lf", "pem-crlf"}
	sizes := []int{1, 2, 3, 5, 17, 100, 1000, 5000}
	if run.Thorough() {
		sizes = append(sizes, 5000, 20000)
	}
	ocsps := []string{"none", "good", "unavailable"}
	var cases []caseSpec
	ncases := 400
	if run.Thorough() {
		ncases = 2400
	}
	// pairwise-ish coverage: cycle every dimension with co-prime strides, then seeded random
	for i := 0; i < ncases; i++ {
		c := caseSpec{ID: i, Seed: rng.Int63()}
		if i < 96 {
			c.Mode = modes[i%4]
			c.Source = sources[(i/4)%4]
			c.Enc = encs[i%3]
			c.N = sizes[i%len(sizes)]
			c.Storage = []string{"memory", "disk"}[(i/2)%2]
			c.OCSP = ocsps[(i/3)%3]
			c.ExtMode = i % 4
			c.Width = []int{0, 1, 2, 8, 16, 20, 21}[i%7]
		} else {
			c.Mode = modes[rng.Intn(4)]
			c.Source = sources[rng.Intn(4)]
			c.Enc = encs[rng.Intn(3)]
			c.N = sizes[rng.Intn(len(sizes))]
			c.Storage = []string{"memory", "disk"}[rng.Intn(2)]
			c.OCSP = ocsps[rng.Intn(3)]
			c.ExtMode = rng.Intn(4)
			c.Width = []int{0, 0, 1, 2, 3, 8, 16, 19, 20, 21}[rng.Intn(10)]
		}
		c.Second = i%3 == 0
		c.Chain = []string{"leaf-int-root", "leaf-int-root", "leaf-int", "leaf-only", "two-chains"}[i%5]
		c.Target2 = c.Second && i%2 == 0
		c.OtherCDP = (c.Source == "crl_files" || c.Source == "crl_urls") && i%4 == 1
		if c.N > 1000 && c.ExtMode == 3 {
			c.ExtMode = 2 // 3 KiB fillers x 5000 entries = 15 MB per case is thorough-only
		}
		if c.Width == 1 && c.N > 100 {
			c.Width = 2
		}
		if c.Width == 2 && c.N > 5000 {
			c.Width = 3
		}
		cases = append(cases, c)
	}
	if run.Thorough() {
		id := len(cases)
		for _, st := range []string{"memory", "disk"} {
			cases = append(cases, caseSpec{ID: id, Mode: "crl_only", Source: "crl_urls", Enc: "der", N: 100000, Storage: st, OCSP: "none", Seed: rng.Int63()})
			id++
			cases = append(cases, caseSpec{ID: id, Mode: "prefer_ocsp", Source: "cdp_active", Enc: "pem-lf", N: 100000, Storage: st, OCSP: "good", Seed: rng.Int63(), ExtMode: 1})
			id++
		}
		cases = append(cases, caseSpec{ID: id, Mode: "crl_only", Source: "crl_files", Enc: "der", N: 1000000, Storage: "disk", OCSP: "none", Seed: rng.Int63(), Width: 12})
		id++
		cases = append(cases, caseSpec{ID: id, Mode: "crl_only", Source: "cdp_active", Enc: "pem-lf", N: 1000000, Storage: "disk", OCSP: "none", Seed: rng.Int63(), Width: 12})
	}

	// every third worker process uses an RSA issuing CA (CRLs signed sha256WithRSA), the others ECDSA
	// the issuing CA's name: default (plain CN) on worker 0 and in unsharded runs, one of the name
	// shapes (multi-valued RDN, e-mail, domainComponent, repeated OU, CN first, private attribute
	// type, non-ASCII, long, special characters ...) on the other workers
	var w *world.World
	var intName []byte
	issuerShape := "default"
	if si := shardIndex(); si > 0 {
		shapes := gen.NameShapes()
		var keys []string
		for k := range shapes {
			keys = append(keys, k)
		}
		sort.Strings(keys)
		issuerShape = keys[(si-1)%len(keys)]
		intName = shapes[issuerShape]
	}
	if shardIndex()%3 == 1 {
		w = world.NewNamed("C01", nil, pki.RSAKey(0), intName)
	} else {
		w = world.NewNamed("C01", nil, nil, intName)
	}
	run.Distinct("issuer_name_shapes", issuerShape)
	defer w.Close()
	w.CRL.Fragment.Store(shardIndex()%2 == 1) // odd workers: CRL bodies arrive in two chunks
	other := world.New("C01-other")           // unrelated PKI for the second CRL
	defer other.Close()
	intPEM := pki.WritePEM(filepath.Join(scratch, "int.pem"), w.Int.Cert)
	otherPEM := pki.WritePEM(filepath.Join(scratch, "other-int.pem"), other.Int.Cert)
	// the unrelated CRL lists a few serials under the other issuer
	otherSpec := gen.SpecFor(other.Int, gen.Entries(rand.New(rand.NewSource(99)), gen.Opts{N: 50}))
	otherDER := otherSpec.Build(other.Int.Key).DER
	otherWorld = other
	for _, e := range otherSpec.Entries {
		otherListedSerials = append(otherListedSerials, e.Serial)
	}
	otherFile := filepath.Join(scratch, "other.crl")
	_ = os.WriteFile(otherFile, otherDER, 0644)
	w.CRL.Set("/other.crl", origin.Good(otherDER))
	// OCSP: "good" for every serial (it is the CRL that must reject)
	w.OCSP.Set("/good", world.Responder(w.Int, nil, nil, func(*big.Int) world.OCSPStatus { return world.OCSPStatus{Status: ocsp.Good} }))
	w.OCSP.Set("/unavail", origin.Status(500, []byte("<html>oops</html>")))

	// worker processes: update passes of all validators of one process are serialised by a
	// process-wide mutex, so cases are spread over processes, two cases at a time per process
	si, sn, isShard := report.Shard()
	if !isShard {
		run.RunShards(14, scratch)
		run.Finish(50)
		return
	}
	l2.InstallHooks()
	var ymu sync.Mutex
	yr := rand.New(rand.NewSource(run.Seed + int64(si)))
	l2.SetExtraHook(func(name string) {
		if name != "map.update.mid" && name != "repo.swap.locked" && name != "repo.check.rlocked" && !strings.HasPrefix(name, "leveldb.update") {
			return
		}
		ymu.Lock()
		r := yr.Intn(8)
		ymu.Unlock()
		if r < 3 {
			runtime.Gosched()
		} else if r < 5 {
			time.Sleep(time.Duration(30*r) * time.Microsecond)
		}
	})
	jobs := make(chan caseSpec, len(cases))
	for _, c := range cases {
		if f := os.Getenv("VERIF_ONLY_SOURCE"); f != "" && c.Source != f {
			continue
		}
		if c.ID%sn != si {
			continue
		}
		jobs <- c
	}
	close(jobs)
	var wg sync.WaitGroup
	workers := 2
	for i := 0; i < workers; i++ {
		wg.Add(1)
		go func() {
			defer wg.Done()
			for c := range jobs {
				runCase(run, w, c, scratch, intPEM, otherPEM, otherFile)
			}
		}()
	}
	wg.Wait()
	if si == 0 {
		tlsScenario(run, w, scratch, intPEM)
	}
	if si == 1%sn {
		siblingLocations(run, w, scratch, intPEM)
	}
	run.Count("crl_origin_hits", int64(w.CRL.HitCount("")))
	run.Count("ocsp_origin_hits", int64(w.OCSP.HitCount("")))
	run.FinishShard()
}

// the unrelated second PKI and the serials its CRL lists (set once per worker process)
var (
	otherWorld         *world.World
	otherListedSerials []*big.Int
)

func runCase(run *report.Run, w *world.World, c caseSpec, scratch, intPEM, otherPEM, otherFile string) {
	other, otherListed := otherWorld, otherListedSerials
	t0 := time.Now()
	defer func() {
		if d := time.Since(t0); d > 3*time.Second && os.Getenv("VERIF_DEBUG") != "" {
			fmt.Printf("slow case %.1fs %s\n", d.Seconds(), c.desc())
		}
	}()
	rng := rand.New(rand.NewSource(c.Seed))
	entries := gen.Entries(rng, gen.Opts{N: c.N, SerialWidth: c.Width, Exts: c.ExtMode, GenTimeMix: true})
	spec := gen.SpecFor(w.Int, entries)
	built := spec.Build(w.Int.Key)
	data := encode(built.DER, c.Enc)
	listed := map[string]bool{}
	for _, e := range entries {
		listed[e.Serial.String()] = true
	}
	workDir := filepath.Join(scratch, fmt.Sprintf("wd%d", c.ID))
	_ = os.MkdirAll(workDir, 0755)
	defer os.RemoveAll(workDir)
	path := fmt.Sprintf("/c%d.crl", c.ID)
	url := w.CRL.URL(path)
	w.CRL.Set(path, origin.Good(data))
	fetch := "fetch_actively"
	if c.Source == "cdp_background" {
		fetch = "fetch_background"
	}
	cfg := sut.CRLCfg(workDir, c.Storage, "verify", fetch, c.Source == "cdp_background", "")
	cfg.TrustedSignatureCertsFiles = []string{intPEM}
	var cdp []string
	switch c.Source {
	case "crl_files":
		f := filepath.Join(workDir, "..", fmt.Sprintf("c%d.crlfile", c.ID))
		_ = os.WriteFile(f, data, 0644)
		defer os.Remove(f)
		cfg.CRLFiles = []string{f}
	case "crl_urls":
		cfg.CRLUrls = []string{url}
	default:
		cdp = []string{url}
	}
	if c.OtherCDP {
		cdp = []string{w.CRL.URL("/other.crl")}
		cfg.TrustedSignatureCertsFiles = append(cfg.TrustedSignatureCertsFiles, otherPEM)
	}
	if c.Second {
		if c.Target2 {
			cfg.CRLFiles = append([]string{otherFile}, cfg.CRLFiles...)
		} else {
			cfg.CRLFiles = append(cfg.CRLFiles, otherFile)
		}
		cfg.TrustedSignatureCertsFiles = append(cfg.TrustedSignatureCertsFiles, otherPEM)
	}
	var aia []string
	switch c.OCSP {
	case "good":
		aia = []string{w.OCSP.URL("/good")}
	case "unavailable":
		aia = []string{w.OCSP.URL("/unavail")}
	}
	v, err := sut.Provision(sut.Config{Mode: c.Mode, CRL: cfg, OCSP: &config.OCSPConfig{TrustedResponderCertsFiles: []string{intPEM}}})
	rp := func(extra map[string]any) *report.Replay {
		m := map[string]any{"case": c, "desc": c.desc()}
		for k, x := range extra {
			m[k] = x
		}
		files := map[string][]byte{}
		if len(data) < 1<<20 {
			files["crl.bin"] = data
		}
		return &report.Replay{Case: m, Files: files}
	}
	if err != nil {
		run.Eval(1)
		run.Violation("provision.healthy-configured-crl.failed", "Provision failed with a healthy acceptable CRL: "+err.Error()+" | "+c.desc(), rp(nil))
		return
	}
	defer v.Cleanup()

	// probe positions
	var pos []int
	if c.N <= 100 {
		for i := 0; i < c.N; i++ {
			pos = append(pos, i)
		}
	} else {
		pos = []int{0, 1, c.N / 2, c.N - 2, c.N - 1}
		for i := 0; i < 20; i++ {
			pos = append(pos, rng.Intn(c.N))
		}
	}
	if c.N > 1000 && len(pos) > 12 {
		pos = pos[:12]
	}
	// the OCSP side needs the issuer certificate: with a chain that lacks it, it must be configured
	shape := func(chain []*x509.Certificate) [][]*x509.Certificate {
		switch c.Chain {
		case "leaf-int":
			return [][]*x509.Certificate{chain[:2]}
		case "leaf-only":
			return [][]*x509.Certificate{chain[:1]}
		case "two-chains":
			return [][]*x509.Certificate{chain, {chain[0], chain[1]}}
		}
		return [][]*x509.Certificate{chain}
	}
	verify := func(serial *big.Int) error {
		chain := w.Leaf(serial, cdp, aia)
		return v.Verify(shape(chain)...)
	}
	// an unlisted serial for the in-force poll / neighbour
	unlisted := func(near *big.Int) *big.Int {
		for d := int64(1); d < 50; d++ {
			for _, s := range []*big.Int{new(big.Int).Add(near, big.NewInt(d)), new(big.Int).Sub(near, big.NewInt(d))} {
				if s.Sign() > 0 && !listed[s.String()] && len(s.Bytes()) <= 20 {
					return s
				}
			}
		}
		return nil
	}
	if c.Source == "cdp_background" {
		// wait until the CRL is in force: an unlisted certificate of this CDP set is accepted
		probe := unlisted(entries[0].Serial)
		chain := w.Leaf(probe, cdp, aia)
		deadline := time.Now().Add(60 * time.Second)
		inForce := false
		for time.Now().Before(deadline) {
			if v.Verify(chain) == nil {
				inForce = true
				break
			}
			time.Sleep(20 * time.Millisecond)
		}
		if !inForce {
			run.Inconclusive("background load not observed in force within the watchdog: " + c.desc())
			return
		}
	}
	trivial := 0
	for _, p := range pos {
		s := entries[p].Serial
		err := verify(s)
		run.Eval(1)
		run.Count("listed_probes", 1)
		if err == nil {
			run.Violation(fmt.Sprintf("listed-accepted.%s.%s", c.Source, c.Storage), fmt.Sprintf("listed serial %s at position %d/%d accepted | %s", s, p, c.N, c.desc()), rp(map[string]any{"position": p, "serial": s.String()}))
			continue
		}
		nb := unlisted(s)
		if nb == nil {
			trivial++
			continue
		}
		nerr := verify(nb)
		run.Count("neighbour_probes", 1)
		if nerr != nil {
			trivial++ // precision problems are C11's business
			run.Count("neighbour_denied", 1)
			continue
		}
		cls := "mid"
		switch {
		case p == 0:
			cls = "first"
		case p == c.N-1:
			cls = "last"
		case p == 1:
			cls = "second"
		case p == c.N-2:
			cls = "last-1"
		}
		run.NonTrivial(c.desc() + " pos=" + cls)
	}
	// the second configured CRL (another PKI, configured by crl_files next to whatever the first source
	// is) is in force too: a certificate of that PKI which it lists is rejected
	if c.Second && len(otherListed) > 0 {
		s2 := otherListed[c.ID%len(otherListed)]
		ch2 := other.Leaf(s2, nil, nil)
		run.Eval(1)
		if err := v.Verify(ch2); err == nil {
			run.Violation(fmt.Sprintf("listed-accepted.second-configured-crl.first-source-%s.%s", c.Source, c.Storage), fmt.Sprintf("serial %s listed in the second configured CRL (crl_files, other issuer) accepted | %s", s2, c.desc()), rp(map[string]any{"serial": s2.String()}))
		} else {
			run.Count("second_crl_probes_rejected", 1)
		}
	}
	// listed certificates must also be rejected while a refresh of the same CRL is in progress
	// (the swap of the store is the critical window; seeded yields at the hook points widen it)
	if c.N <= 1000 && c.ID%3 == 0 {
		crlChk, _ := v.Val.VerifCheckers()
		if crlChk != nil {
			var chains [][]*x509.Certificate
			for _, p := range pos[:min(3, len(pos))] {
				chains = append(chains, w.Leaf(entries[p].Serial, cdp, aia))
			}
			done := make(chan struct{})
			go func() {
				defer close(done)
				for k := 0; k < 8; k++ {
					crlChk.VerifUpdateCRLs(true)
				}
			}()
			during := 0
		loop:
			for {
				select {
				case <-done:
					break loop
				default:
				}
				for _, ch := range chains {
					err := v.Verify(ch)
					during++
					run.Eval(1)
					if err == nil {
						run.Violation(fmt.Sprintf("listed-accepted-during-refresh.%s.%s", c.Source, c.Storage), fmt.Sprintf("listed serial %s accepted while a refresh of its CRL was in progress | %s", ch[0].SerialNumber, c.desc()), rp(map[string]any{"serial": ch[0].SerialNumber.String()}))
						break loop
					}
				}
			}
			<-done
			run.Count("listed_probes_during_refresh", int64(during))
			// a refresh that is refused (the served copy has a damaged signature) leaves the list in force
			if c.Source != "crl_files" {
				bad := append([]byte(nil), built.DER...)
				bad[len(bad)-1] ^= 1
				w.CRL.Set(path, origin.Good(encode(bad, c.Enc)))
				crlChk.VerifUpdateCRLs(true)
				for _, ch := range chains {
					run.Eval(1)
					if v.Verify(ch) == nil {
						run.Violation(fmt.Sprintf("listed-accepted-after-refused-refresh.%s.%s", c.Source, c.Storage), fmt.Sprintf("listed serial %s accepted after a refresh that had to be refused (bad signature) | %s", ch[0].SerialNumber, c.desc()), rp(map[string]any{"serial": ch[0].SerialNumber.String()}))
						break
					}
					run.Count("listed_probes_after_refused_refresh", 1)
				}
				w.CRL.Set(path, origin.Good(data))
			}
		}
	}
	if c.ID%40 == 0 {
		run.Sample(map[string]any{"case": c.desc(), "probed_positions": len(pos), "first_listed_serial": entries[0].Serial.String(), "crl_bytes": len(data)})
	}
	_ = x509.Certificate{}
}

// tlsScenario wires the validator into a real TLS server exactly as caddytls does
// (tls.Config.VerifyPeerCertificate -> VerifyClientCertificate(rawCerts, verifiedChains)) and
// confirms on a handful of real handshakes that the returned error aborts the handshake.
func tlsScenario(run *report.Run, w *world.World, scratch, intPEM string) {
	rng := rand.New(rand.NewSource(run.Seed + 4242))
	entries := gen.Entries(rng, gen.Opts{N: 40, SerialWidth: 0, Exts: 4})
	file := filepath.Join(scratch, "tls.crl")
	_ = os.WriteFile(file, crlgen.PEM(gen.SpecFor(w.Int, entries).Build(w.Int.Key).DER, "\n", true), 0644)
	wd := filepath.Join(scratch, "wd-tls")
	_ = os.MkdirAll(wd, 0755)
	cfg := sut.CRLCfg(wd, "disk", "verify", "fetch_actively", false, "")
	cfg.CRLFiles = []string{file}
	cfg.TrustedSignatureCertsFiles = []string{intPEM}
	v, err := sut.Provision(sut.Config{Mode: "crl_only", CRL: cfg})
	if err != nil {
		run.Violation("tls.provision-failed", err.Error(), nil)
		return
	}
	defer v.Cleanup()
	serverCert := w.Int.Issue(pki.CertOpts{CN: "localhost", DNSNames: []string{"localhost"}, ExtKeyUsage: []x509.ExtKeyUsage{x509.ExtKeyUsageServerAuth}})
	pool := x509.NewCertPool()
	pool.AddCert(w.Root.Cert)
	inter := x509.NewCertPool()
	inter.AddCert(w.Int.Cert)
	srvCfg := &tls.Config{
		Certificates: []tls.Certificate{{Certificate: [][]byte{serverCert.Cert.Raw, w.Int.Cert.Raw}, PrivateKey: serverCert.Key}},
		ClientAuth:   tls.RequireAndVerifyClientCert,
		ClientCAs:    pool,
		VerifyPeerCertificate: func(rawCerts [][]byte, verifiedChains [][]*x509.Certificate) error {
			return v.Val.VerifyClientCertificate(rawCerts, verifiedChains)
		},
	}
	ln, err := tls.Listen("tcp", "127.0.0.1:0", srvCfg)
	if err != nil {
		run.Inconclusive("tls listen: " + err.Error())
		return
	}
	defer ln.Close()
	results := make(chan error, 64)
	go func() {
		for {
			c, err := ln.Accept()
			if err != nil {
				return
			}
			go func(c net.Conn) {
				defer c.Close()
				tc := c.(*tls.Conn)
				_ = tc.SetDeadline(time.Now().Add(10 * time.Second))
				err := tc.Handshake()
				if err == nil {
					_, _ = tc.Write([]byte("ok"))
				}
				results <- err
			}(c)
		}
	}()
	dial := func(serial *big.Int) (clientOK bool, serverErr error) {
		leaf := w.Int.Issue(pki.CertOpts{CN: "tls client", Serial: serial, ExtKeyUsage: []x509.ExtKeyUsage{x509.ExtKeyUsageClientAuth}})
		cc := &tls.Config{
			Certificates: []tls.Certificate{{Certificate: [][]byte{leaf.Cert.Raw, w.Int.Cert.Raw}, PrivateKey: leaf.Key}},
			RootCAs:      pool, ServerName: "localhost",
		}
		conn, err := tls.Dial("tcp", ln.Addr().String(), cc)
		if err == nil {
			_ = conn.SetDeadline(time.Now().Add(10 * time.Second))
			buf := make([]byte, 2)
			_, rerr := conn.Read(buf)
			clientOK = rerr == nil && string(buf) == "ok"
			conn.Close()
		}
		select {
		case serverErr = <-results:
		case <-time.After(15 * time.Second):
			serverErr = fmt.Errorf("no server result")
		}
		return
	}
	for _, p := range []int{0, 20, 39} {
		ok, serr := dial(entries[p].Serial)
		run.Eval(1)
		if ok || serr == nil {
			run.Violation("tls.revoked-client-completed-handshake", fmt.Sprintf("real TLS handshake with a listed client certificate (position %d) completed: client ok=%v server err=%v", p, ok, serr), nil)
			continue
		}
		if !strings.Contains(serr.Error(), "revoked") {
			run.Inconclusive(fmt.Sprintf("tls: handshake with a listed certificate failed for another reason: %v", serr))
			continue
		}
		run.NonTrivial(fmt.Sprintf("tls handshake listed position %d aborted", p))
	}
	for i := 0; i < 2; i++ {
		ok, serr := dial(pki.NextSerial())
		run.Eval(1)
		if !ok || serr != nil {
			run.Violation("tls.unlisted-client-rejected", fmt.Sprintf("real TLS handshake with an unlisted client certificate failed: client ok=%v server err=%v", ok, serr), nil)
			continue
		}
		run.NonTrivial(fmt.Sprintf("tls handshake unlisted #%d completed", i))
	}
	run.Count("real_tls_handshakes", 5)
}

// siblingLocations: two healthy CRLs at locations that differ only slightly (query string, path
// case, trailing slash, doubled slash); a certificate listed in either must be rejected, whether
// the locations are configured crl_urls or the certificates' own distribution points.
func siblingLocations(run *report.Run, w *world.World, scratch, intPEM string) {
	rng := rand.New(rand.NewSource(run.Seed + 777))
	pairs := map[string][2]string{
		"query-differs":     {"/certdist?cmd=crl&issuer=CA-A", "/certdist?cmd=crl&issuer=CA-B"},
		"path-case-differs": {"/crl/Issuing.crl", "/crl/issuing.crl"},
		"trailing-slash":    {"/crls/current", "/crls/current/"},
		"doubled-slash":     {"/pki/ca.crl", "/pki//ca.crl"},
		"query-vs-none":     {"/q.crl", "/q.crl?v=2"},
		"port-differs":      {"/ca.crl", "/ca.crl"}, // second URL on another origin: same host and path, other port
	}
	n := 0
	for name, pr := range pairs {
		for _, backend := range []string{"memory", "disk"} {
			for _, via := range []string{"crl_urls", "cdp"} {
				n++
				e1 := gen.Entries(rng, gen.Opts{N: 6, SerialWidth: 9})
				e2 := gen.Entries(rng, gen.Opts{N: 6, SerialWidth: 9})
				pfx := fmt.Sprintf("/sib%d", n)
				u1, u2 := w.CRL.URL(pfx+pr[0]), w.CRL.URL(pfx+pr[1])
				set := func(o *origin.Origin, p string, body []byte) {
					o.Set(pfx+p, origin.Good(body))
					if !strings.Contains(p, "?") {
						o.Set(pfx+p+"?", origin.Good(body))
					}
				}
				o2 := w.CRL
				if name == "port-differs" {
					o2 = w.OCSP // the world's second loopback origin listens on another port
					u2 = o2.URL(pfx + pr[1])
				}
				set(w.CRL, pr[0], gen.SpecFor(w.Int, e1).Build(w.Int.Key).DER)
				set(o2, pr[1], gen.SpecFor(w.Int, e2).Build(w.Int.Key).DER)
				wd := filepath.Join(scratch, fmt.Sprintf("wd-sib%d", n))
				_ = os.MkdirAll(wd, 0755)
				cfg := sut.CRLCfg(wd, backend, "verify", "fetch_actively", false, "")
				cfg.TrustedSignatureCertsFiles = []string{intPEM}
				var cdp1, cdp2 []string
				if via == "crl_urls" {
					cfg.CRLUrls = []string{u1, u2}
				} else {
					cdp1, cdp2 = []string{u1}, []string{u2}
				}
				v, err := sut.Provision(sut.Config{Mode: "crl_only", CRL: cfg})
				desc := fmt.Sprintf("sibling locations %s via=%s backend=%s", name, via, backend)
				run.Eval(1)
				if err != nil {
					run.Violation("sibling-locations.provision-failed."+name, desc+": "+err.Error(), nil)
					continue
				}
				ok := true
				// touch both locations first (CDP: first use), then ask about both lists
				_ = v.Verify(w.Leaf(pki.NextSerial(), cdp1, nil))
				_ = v.Verify(w.Leaf(pki.NextSerial(), cdp2, nil))
				for i, probe := range []struct {
					s   *big.Int
					cdp []string
				}{{e1[2].Serial, cdp1}, {e2[3].Serial, cdp2}} {
					if v.Verify(w.Leaf(probe.s, probe.cdp, nil)) == nil {
						ok = false
						run.Violation(fmt.Sprintf("sibling-locations.%s.listed-accepted.%s", name, via), fmt.Sprintf("%s: certificate listed in CRL #%d (%s) accepted", desc, i+1, []string{u1, u2}[i]), &report.Replay{Case: desc})
					}
				}
				if ok {
					run.NonTrivial(desc)
				}
				_ = v.Cleanup()
				_ = os.RemoveAll(wd)
			}
		}
	}
}

func shardIndex() int {
	i, _, _ := report.Shard()
	return i
}
