package main

import (
	"crypto/x509"
	"fmt"
	"math/big"
	"math/rand"
	"os"
	"path/filepath"
	"sync"
	"sync/atomic"
	"time"

	"verif/harness/lab/crlgen"
	"verif/harness/lab/gen"
	"verif/harness/lab/l2"
	"verif/harness/lab/origin"
	"verif/harness/lab/report"
	"verif/harness/lab/world"
)

// overlapScenario: two update passes of one checker are requested so that they overlap in time (as a
// ticker pass and a pass triggered by a background-mode handshake do). The origin answers the first
// request slowly with the list published then (v1); meanwhile v2 is published and the second pass is
// requested. Readers keep asking for a serial only v2 lists: once a completed lookup saw it
// rejected (v2 observed), no lookup that begins later may see it accepted again (v1 or v0 back in
// force), and v2 must be in force when both passes have returned.
func overlapScenario(run *report.Run, w *world.World, backend string, seed int64, scratch string, idx int) {
	rng := rand.New(rand.NewSource(seed))
	wd := filepath.Join(scratch, fmt.Sprintf("ov-wd%d", idx))
	_ = os.MkdirAll(wd, 0755)
	defer os.RemoveAll(wd)
	path := fmt.Sprintf("/ov%d.crl", idx)
	url := w.CRL.URL(path)
	cdp := []string{url}
	common := gen.Entries(rng, gen.Opts{N: 3, SerialWidth: 8})
	u := []*big.Int{gen.SerialOfWidth(rng, 9, false), gen.SerialOfWidth(rng, 9, false), gen.SerialOfWidth(rng, 9, false)}
	build := func(v int) []byte {
		es := append([]crlgen.Entry(nil), common...)
		es = append(es, crlgen.Entry{Serial: u[v], Date: gen.BaseTime})
		es = append(es, gen.Entries(rng, gen.Opts{N: 30, SerialWidth: 11})...)
		s := gen.SpecFor(w.Int, es)
		s.Exts = [][]byte{crlgen.AKIKeyID(w.Int.Cert.SubjectKeyId), crlgen.CRLNumberExt(big.NewInt(int64(v)))}
		return s.Build(w.Int.Key).DER
	}
	delay := time.Duration(80+rng.Intn(120)) * time.Millisecond
	gapPublish := time.Duration(5+rng.Intn(20)) * time.Millisecond
	gapSecond := time.Duration(rng.Intn(25)) * time.Millisecond
	desc := fmt.Sprintf("overlapping-passes backend=%s first-download=%v publish-after=%v second-pass-after=%v", backend, delay, gapPublish, gapSecond)
	w.CRL.Set(path, origin.Good(build(0)))
	chk, err := l2.Start(l2.Opts{WorkDir: wd, Storage: backend, SigMode: "verify", Fetch: "actively"})
	if err != nil {
		run.Violation("provision-failed", err.Error(), nil)
		return
	}
	defer chk.Stop()
	p0 := w.Leaf(u[0], cdp, nil)
	p2 := w.Leaf(u[2], cdp, nil)
	if rev, err := chk.Ask(p0); err != nil || !rev {
		run.Inconclusive(fmt.Sprintf("initial version not in force (%v/%v): %s", rev, err, desc))
		return
	}
	run.Eval(1)
	start := time.Now()
	now := func() int64 { return time.Since(start).Nanoseconds() }
	type obs struct {
		call, ret int64
		rev       bool
		err       string
	}
	var mu sync.Mutex
	var seen []obs
	var stop atomic.Bool
	var wg sync.WaitGroup
	for r := 0; r < 3; r++ {
		wg.Add(1)
		go func() {
			defer wg.Done()
			for !stop.Load() {
				o := obs{call: now()}
				st, err := chk.C.IsRevoked(p2[0], [][]*x509.Certificate{p2})
				o.ret = now()
				if err != nil {
					o.err = err.Error()
				} else {
					o.rev = st.Revoked
				}
				mu.Lock()
				seen = append(seen, o)
				mu.Unlock()
				time.Sleep(200 * time.Microsecond)
			}
		}()
	}
	slow := origin.Good(build(1))
	slow.Delay = delay
	w.CRL.Set(path, slow)
	hits0 := w.CRL.HitCount(path)
	var pwg sync.WaitGroup
	pwg.Add(2)
	go func() { defer pwg.Done(); chk.C.VerifUpdateCRLs(true) }() // the pass that downloads v1 slowly
	// wait until the origin has received the first request, then publish v2 and request the second pass
	dl := time.Now().Add(5 * time.Second)
	for time.Now().Before(dl) && w.CRL.InFlight(path) == 0 && w.CRL.HitCount(path) == hits0 {
		time.Sleep(200 * time.Microsecond)
	}
	time.Sleep(gapPublish)
	w.CRL.Set(path, origin.Good(build(2)))
	time.Sleep(gapSecond)
	secondBegan := now()
	go func() { defer pwg.Done(); chk.C.VerifUpdateCRLs(true) }()
	pwg.Wait()
	bothDone := now()
	time.Sleep(5 * time.Millisecond)
	stop.Store(true)
	wg.Wait()
	final, ferr := chk.Ask(p2)
	// oracle
	mu.Lock()
	defer mu.Unlock()
	firstSeenRet := int64(-1)
	for _, o := range seen {
		if o.err == "" && o.rev && (firstSeenRet < 0 || o.ret < firstSeenRet) {
			firstSeenRet = o.ret
		}
	}
	rp := &report.Replay{Case: map[string]any{"scenario": desc, "seed": seed, "lookups": len(seen), "second_pass_requested_ns": secondBegan, "both_passes_returned_ns": bothDone, "v2_first_observed_ns": firstSeenRet}}
	bad := false
	for _, o := range seen {
		if o.err != "" {
			bad = true
			run.Violation("overlapping-passes.lookup-error."+backend, desc+": lookup returned an error: "+o.err, rp)
			break
		}
		if firstSeenRet >= 0 && o.call > firstSeenRet && !o.rev {
			bad = true
			run.Violation("overlapping-passes.old-list-observed-after-new."+backend, fmt.Sprintf("%s: the newest list (v2) was observed by a lookup that returned at %d ns, a lookup that began at %d ns was answered from an older list again", desc, firstSeenRet, o.call), rp)
			break
		}
	}
	if !bad && (ferr != nil || !final) {
		bad = true
		run.Violation("overlapping-passes.newest-list-not-in-force-at-the-end."+backend, fmt.Sprintf("%s: both passes returned, the second one was requested after v2 had been published, but v2's serial is accepted (err=%v)", desc, ferr), rp)
	}
	run.Count("overlap_lookups", int64(len(seen)))
	if !bad {
		run.NonTrivial(desc)
	}
}
