// c08: refresh atomicity and failed-refresh retention — recorded client-boundary histories of
// concurrent lookups and refreshes, checked for linearizability against a one-register model
// (porcupine), with fault injection at every refresh stage and seeded yields at hook points.
package main

import (
	"crypto/x509"
	"crypto/x509/pkix"
	"errors"
	"fmt"
	"math/big"
	"math/rand"
	"os"
	"path/filepath"
	"runtime"
	"strings"
	"sync"
	"sync/atomic"
	"time"

	"github.com/anishathalye/porcupine"

	"github.com/gr33nbl00d/caddy-revocation-validator/core"
	"github.com/gr33nbl00d/caddy-revocation-validator/crl/crlstore"

	"verif/harness/lab/crlgen"
	"verif/harness/lab/gen"
	"verif/harness/lab/l2"
	"verif/harness/lab/origin"
	"verif/harness/lab/pki"
	"verif/harness/lab/report"
	"verif/harness/lab/sut"
	"verif/harness/lab/world"
)

// ---- fault factory (decorates the exported Repository.Factory; returns the raw store when no
// fault is scheduled because LevelDbStore.Update type-asserts its argument)

type faultFactory struct {
	real       crlstore.Factory
	failCreate atomic.Bool
	ser        *faultSerializer
	tempStores atomic.Int64
}

func (f *faultFactory) CreateStore(id string, temp bool) (crlstore.CRLStore, error) {
	if temp {
		f.tempStores.Add(1)
		if f.failCreate.Load() {
			return nil, errors.New("injected: creation of the temporary store failed")
		}
	}
	return f.real.CreateStore(id, temp)
}

// faultSerializer makes the k-th insert into a staging store fail (once): the stores stay the
// repository's own types, so a refresh that wrongly carries on can still swap its staged store in.
type faultSerializer struct {
	crlstore.Serializer
	n      atomic.Int64
	failAt atomic.Int64
}

func (s *faultSerializer) SerializeRevokedCert(rc *pkix.RevokedCertificate) ([]byte, error) {
	if k := s.failAt.Load(); k > 0 && s.n.Add(1) == k {
		return nil, errors.New("injected: insert into the temporary store failed")
	}
	return s.Serializer.SerializeRevokedCert(rc)
}

func (s *faultSerializer) arm(k int64) {
	s.n.Store(0)
	s.failAt.Store(k)
}

// newFaultFactory rebuilds the repository's own factory with the fault serializer.
func newFaultFactory(real crlstore.Factory) *faultFactory {
	fs := &faultSerializer{}
	switch f := real.(type) {
	case crlstore.MapStoreFactory:
		fs.Serializer = f.Serializer
		f.Serializer = fs
		return &faultFactory{real: f, ser: fs}
	case crlstore.LevelDbStoreFactory:
		fs.Serializer = f.Serializer
		f.Serializer = fs
		return &faultFactory{real: f, ser: fs}
	}
	fs.Serializer = crlstore.ASN1Serializer{}
	return &faultFactory{real: real, ser: fs}
}

// ---- history model

type opIn struct {
	Kind   string // lookup | refresh
	Tag    string // lookup: "common", "never", "u<i>"
	Target int    // refresh
	Fault  string
}

type opOut struct {
	Revoked bool
	Result  string // refresh: ok | err | unknown
}

func model() porcupine.Model {
	nm := porcupine.NondeterministicModel{
		Init: func() []interface{} { return []interface{}{0} },
		Step: func(st, in, out interface{}) []interface{} {
			s := st.(int)
			i := in.(opIn)
			o := out.(opOut)
			if i.Kind == "lookup" {
				want := i.Tag == "common" || i.Tag == fmt.Sprintf("u%d", s)
				if o.Revoked == want {
					return []interface{}{s}
				}
				return nil
			}
			switch o.Result {
			case "ok":
				return []interface{}{i.Target}
			case "err":
				return []interface{}{s}
			}
			return []interface{}{s, i.Target}
		},
		Equal: func(a, b interface{}) bool { return a.(int) == b.(int) },
		DescribeOperation: func(in, out interface{}) string {
			i := in.(opIn)
			o := out.(opOut)
			if i.Kind == "lookup" {
				return fmt.Sprintf("lookup(%s)->%v", i.Tag, o.Revoked)
			}
			return fmt.Sprintf("refresh(v%d,%s)->%s", i.Target, i.Fault, o.Result)
		},
		DescribeState: func(s interface{}) string { return fmt.Sprintf("v%d", s.(int)) },
	}
	return nm.ToModel()
}

var faults = []string{"ok", "http500", "garbage", "badsig", "unknown-signer", "tempstore-create-fails", "insert-fails@1", "insert-fails@mid", "insert-fails@last"}
var slowFaults = []string{"refused", "truncated-download"}

// "swap-fails" (disk only, ~5 s of rename retries): the staged database vanishes just before it is moved
// into place, so the swap step fails after the old database was moved aside and has to be rolled back

type histSpec struct {
	Backend string
	Steps   []string
	Unknown bool // refresh through the update pass (outcome not returned)
	Readers int
	Seed    int64
}

func (h histSpec) String() string {
	return fmt.Sprintf("backend=%s readers=%d via=%s steps=%s", h.Backend, h.Readers, map[bool]string{true: "update-pass", false: "UpdateCRL"}[h.Unknown], strings.Join(h.Steps, ","))
}

func main() {
	run := report.New("C08", "fault_enumeration")
	run.Rule("history = 2..4 reader clients doing lookups of version-identifying probe serials (common, never, unique-per-version) concurrently with one refresher that steps through a sequence of refresh outcomes {ok, http500, garbage, bad signature, unknown signer, temporary-store creation error, insert error at step 1/mid/last} and, on disk, a store swap that fails after the old database was moved aside (all sequences of length <=2, sampled length 3; refused / truncated download sampled; thorough: length <=3 exhaustive + lengths 4..6 sampled, every history under six schedules) on both backends, with seeded yields at the swap/lookup hook points; every call and return is stamped at the client boundary; oracle = linearizability of the history w.r.t. a single register holding the version in force (refresh ok => target, refresh err => unchanged, outcome not returned => either; lookup legal iff it matches the register), checked by porcupine; a lookup returning an error is reported separately; plus scenarios with two overlapping update passes of one checker (slow first download of v1, v2 published meanwhile): once v2 was observed no later lookup sees an older list, and v2 is in force when both have returned; non-trivial = history in which at least one lookup overlapped a refresh call; distinct = history descriptor")
	run.Assume("one location, so no partitioning; histories <= 450 operations, checker timeout 60 s => Unknown is inconclusive", "monotonic stamps from one clock in the harness process")
	scratch, _ := report.Scratch("C08")
	sut.QuietStderr(filepath.Join(scratch, "stderr.log"))
	rng := rand.New(rand.NewSource(run.Seed))
	var specs []histSpec
	for _, b := range []string{"memory", "disk"} {
		for _, f := range faults {
			specs = append(specs, histSpec{Backend: b, Steps: []string{f}, Readers: 2 + rng.Intn(3), Seed: rng.Int63()})
		}
		for _, f := range faults {
			for _, g := range faults {
				specs = append(specs, histSpec{Backend: b, Steps: []string{f, g}, Readers: 2 + rng.Intn(3), Seed: rng.Int63(), Unknown: rng.Intn(5) == 0})
			}
		}
		n3 := 40
		if run.Thorough() {
			n3 = 0
			for _, f := range faults {
				for _, g := range faults {
					for _, h := range faults {
						specs = append(specs, histSpec{Backend: b, Steps: []string{f, g, h}, Readers: 2 + rng.Intn(3), Seed: rng.Int63(), Unknown: rng.Intn(5) == 0})
					}
				}
			}
			for i := 0; i < 300; i++ {
				specs = append(specs, histSpec{Backend: b, Steps: []string{faults[rng.Intn(9)], faults[rng.Intn(9)], faults[rng.Intn(9)], faults[rng.Intn(9)]}, Readers: 4, Seed: rng.Int63(), Unknown: rng.Intn(4) == 0})
			}
		}
		for i := 0; i < n3; i++ {
			specs = append(specs, histSpec{Backend: b, Steps: []string{faults[rng.Intn(9)], faults[rng.Intn(9)], faults[rng.Intn(9)]}, Readers: 2 + rng.Intn(3), Seed: rng.Int63(), Unknown: rng.Intn(4) == 0})
		}
		// retention then recovery with the slow faults
		nslow := 1
		if run.Thorough() {
			nslow = 6
		}
		for i := 0; i < nslow; i++ {
			for _, sf := range slowFaults {
				specs = append(specs, histSpec{Backend: b, Steps: []string{sf, "ok"}, Readers: 3, Seed: rng.Int63()})
			}
		}
		// the list refused for its unknown signer is offered again, unchanged, once the signer is known (the
		// client chains then carry the new CA certificate): it has to take effect
		specs = append(specs, histSpec{Backend: b, Steps: []string{"unknown-signer", "signer-now-known"}, Readers: 3, Seed: rng.Int63()},
			histSpec{Backend: b, Steps: []string{"ok", "unknown-signer", "signer-now-known", "ok"}, Readers: 2, Seed: rng.Int63()},
			histSpec{Backend: b, Steps: []string{"badsig", "unknown-signer", "unknown-signer", "signer-now-known"}, Readers: 3, Seed: rng.Int63()})
		if b == "disk" {
			specs = append(specs, histSpec{Backend: b, Steps: []string{"swap-fails", "ok"}, Readers: 3, Seed: rng.Int63()},
				histSpec{Backend: b, Steps: []string{"ok", "swap-fails"}, Readers: 2, Seed: rng.Int63()})
			if run.Thorough() {
				specs = append(specs, histSpec{Backend: b, Steps: []string{"swap-fails", "swap-fails", "ok"}, Readers: 3, Seed: rng.Int63()},
					histSpec{Backend: b, Steps: []string{"ok", "swap-fails", "ok"}, Readers: 4, Seed: rng.Int63(), Unknown: true})
			}
		}
	}
	if run.Thorough() {
		// every fast history five more times under other reader counts and yield schedules, and
		// sampled histories of length 5 and 6
		base := len(specs)
		for r := 0; r < 5; r++ {
			for _, sp := range specs[:base] {
				if len(sp.Steps) == 2 && (sp.Steps[0] == "refused" || sp.Steps[0] == "truncated-download") {
					continue
				}
				sp.Readers = 2 + rng.Intn(3)
				sp.Seed = rng.Int63()
				sp.Unknown = rng.Intn(4) == 0
				specs = append(specs, sp)
			}
		}
		for i := 0; i < 600; i++ {
			var st []string
			for j := 0; j < 5+i%2; j++ {
				st = append(st, faults[rng.Intn(9)])
			}
			specs = append(specs, histSpec{Backend: []string{"memory", "disk"}[i%2], Steps: st, Readers: 2 + rng.Intn(3), Seed: rng.Int63(), Unknown: rng.Intn(4) == 0})
		}
	}
	si, sn, isShard := report.Shard()
	if !isShard {
		run.RunShards(14, scratch)
		for _, b := range []string{"memory", "disk"} {
			if run.Counter("histories_with_lookup_overlapping_swap_"+b) < 1 {
				run.Inconclusive("no history on backend " + b + " in which a lookup overlapped the store swap")
			}
		}
		run.Set("histories_planned", len(specs))
		run.Finish(20)
		return
	}
	w := world.New(fmt.Sprintf("C08-%d", si))
	defer w.Close()
	w.CRL.Fragment.Store(si%2 == 1)
	for i, hs := range specs {
		if i%sn != si {
			continue
		}
		runHistory(run, w, hs, scratch, i)
	}
	// overlapping update passes of one checker
	nov := 24
	if run.Thorough() {
		nov = 240
	}
	orng := rand.New(rand.NewSource(run.Seed ^ 0x0e12))
	for i := 0; i < nov; i++ {
		sd := orng.Int63()
		if i%sn != si {
			continue
		}
		overlapScenario(run, w, []string{"memory", "disk"}[i%2], sd, scratch, i)
	}
	run.FinishShard()
}

type recorded struct {
	ops    []porcupine.Operation
	errs   []string
	mu     sync.Mutex
	start  time.Time
	client int
}

func (r *recorded) add(op porcupine.Operation) {
	r.mu.Lock()
	r.ops = append(r.ops, op)
	r.mu.Unlock()
}

func runHistory(run *report.Run, w *world.World, hs histSpec, scratch string, idx int) {
	rng := rand.New(rand.NewSource(hs.Seed))
	wd := filepath.Join(scratch, fmt.Sprintf("wd%d", idx))
	_ = os.MkdirAll(wd, 0755)
	defer os.RemoveAll(wd)
	path := fmt.Sprintf("/a%d.crl", idx)
	url := w.CRL.URL(path)
	cdp := []string{url}
	sibling := w.Root.Issue(pki.CertOpts{RawSubject: w.Int.Cert.RawSubject, IsCA: true})
	nver := len(hs.Steps) + 1
	common := gen.Entries(rng, gen.Opts{N: 3, SerialWidth: 8})
	uniq := make([][]crlgen.Entry, nver)
	for i := range uniq {
		uniq[i] = gen.Entries(rng, gen.Opts{N: 3, SerialWidth: 9})
	}
	never := gen.SerialOfWidth(rng, 10, false)
	buildVersion := func(i int, signer *pki.CA, akiOf *pki.CA) []byte {
		es := append(append([]crlgen.Entry(nil), common...), uniq[i]...)
		// filler entries so that staging takes a moment and 'mid'/'last' insert faults exist
		es = append(es, gen.Entries(rng, gen.Opts{N: 30, SerialWidth: 11})...)
		s := gen.SpecFor(w.Int, es)
		s.Exts = [][]byte{crlgen.AKIKeyID(akiOf.Cert.SubjectKeyId), crlgen.CRLNumberExt(big.NewInt(int64(i)))}
		return s.Build(signer.Key).DER
	}
	nEntries := int64(36)
	// probes
	type probe struct {
		tag   string
		chain []*x509.Certificate
	}
	probes := []probe{{"common", w.Leaf(common[0].Serial, cdp, nil)}, {"never", w.Leaf(never, cdp, nil)}}
	for i := 0; i < nver; i++ {
		probes = append(probes, probe{fmt.Sprintf("u%d", i), w.Leaf(uniq[i][1].Serial, cdp, nil)})
	}

	l2.InstallHooks()
	w.CRL.Set(path, origin.Good(buildVersion(0, w.Int, w.Int)))
	chk, err := l2.Start(l2.Opts{WorkDir: wd, Storage: hs.Backend, SigMode: "verify", Fetch: "actively", Strict: false})
	if err != nil {
		run.Violation("provision-failed", err.Error(), nil)
		return
	}
	defer chk.Stop()
	repo := chk.C.VerifRepository()
	ff := newFaultFactory(repo.Factory)
	repo.Factory = ff
	// initial load of v0 (sequential)
	if rev, err := chk.Ask(probes[2].chain); err != nil || !rev {
		run.Inconclusive(fmt.Sprintf("initial version not in force (%v/%v): %s", rev, err, hs))
		return
	}
	// seeded yields at hook points + swap time stamps
	rec := &recorded{start: time.Now()}
	now := func() int64 { return time.Since(rec.start).Nanoseconds() }
	var swapTimes []int64
	var swapMu sync.Mutex
	var yrng = rand.New(rand.NewSource(hs.Seed ^ 0x5eed))
	var ymu sync.Mutex
	hookOrder := []string{}
	var swapFault atomic.Bool
	var inSwap atomic.Bool // between 'swap locked' and 'after swap': the window that matters most
	// the live store directories (everything in work_dir now, after the initial load); the staged
	// database of a refresh is whatever directory appears next to them
	liveDirs := map[string]bool{}
	if des, err := os.ReadDir(wd); err == nil {
		for _, de := range des {
			liveDirs[de.Name()] = true
		}
	}
	l2.SetExtraHook(func(name string) {
		if name == "leveldb.update.new_closed" && swapFault.CompareAndSwap(true, false) {
			des, _ := os.ReadDir(wd)
			for _, de := range des {
				if de.IsDir() && !liveDirs[de.Name()] {
					_ = os.RemoveAll(filepath.Join(wd, de.Name()))
				}
			}
			run.Count("swap_faults_fired", 1)
		}
		if name == "repo.swap.locked" {
			inSwap.Store(true)
		}
		if name == "repo.update.after_swap" {
			inSwap.Store(false)
		}
		if name == "repo.swap.locked" {
			swapMu.Lock()
			swapTimes = append(swapTimes, now())
			swapMu.Unlock()
		}
		ymu.Lock()
		r := yrng.Intn(10)
		if strings.HasPrefix(name, "repo.") || strings.HasPrefix(name, "map.") || strings.HasPrefix(name, "leveldb.") {
			if len(hookOrder) < 4000 {
				hookOrder = append(hookOrder, name)
			}
		}
		ymu.Unlock()
		switch {
		case name == "leveldb.update.old_closed" || name == "leveldb.update.old_moved_aside" || name == "map.update.mid":
			// the window in which the live store is closed / half replaced: readers get time to try
			time.Sleep(time.Duration(600+r*150) * time.Microsecond)
		case r < 4:
			runtime.Gosched()
		case r < 7:
			time.Sleep(time.Duration(20+r*25) * time.Microsecond)
		}
	})
	defer l2.SetExtraHook(nil)

	chains := core.NewCertificateChains([][]*x509.Certificate{{w.Int.Cert, w.Root.Cert}}, nil)
	locs := &core.CRLLocations{CRLDistributionPoints: cdp}
	var stop atomic.Bool
	var refreshing atomic.Bool
	var wg sync.WaitGroup
	perReader := 400 / hs.Readers
	var lookupErrs atomic.Int64
	var firstLookupErr atomic.Value
	for c := 0; c < hs.Readers; c++ {
		wg.Add(1)
		go func(c int) {
			defer wg.Done()
			r := rand.New(rand.NewSource(hs.Seed + int64(c)*7919))
			n := 0
			for !stop.Load() && n < perReader {
				// lookups are paced so that most of them fall into refresh windows
				if !refreshing.Load() {
					time.Sleep(150 * time.Microsecond)
					if r.Intn(4) != 0 {
						continue
					}
				}
				p := probes[r.Intn(len(probes))]
				t0 := now()
				st, err := chk.C.IsRevoked(p.chain[0], [][]*x509.Certificate{p.chain})
				t1 := now()
				n++
				if err != nil {
					lookupErrs.Add(1)
					firstLookupErr.CompareAndSwap(nil, fmt.Sprintf("lookup(%s) at %dns: %v", p.tag, t0, err))
					continue
				}
				rec.add(porcupine.Operation{ClientId: c, Input: opIn{Kind: "lookup", Tag: p.tag}, Call: t0, Output: opOut{Revoked: st.Revoked}, Return: t1})
				time.Sleep(time.Duration(r.Intn(60)) * time.Microsecond)
			}
		}(c)
	}
	// refresher
	state := 0
	lastRefreshErr := ""
	chainsWithSibling := core.NewCertificateChains([][]*x509.Certificate{{sibling.Cert, w.Root.Cert}, {w.Int.Cert, w.Root.Cert}}, nil)
	for si, f := range hs.Steps {
		target := si + 1
		useChains := chains
		ff.failCreate.Store(false)
		ff.ser.arm(0)
		switch f {
		case "ok":
			w.CRL.Set(path, origin.Good(buildVersion(target, w.Int, w.Int)))
		case "http500":
			w.CRL.Set(path, origin.Status(500, []byte("<html>error</html>")))
		case "garbage":
			w.CRL.Set(path, origin.Garbage())
		case "badsig":
			d := buildVersion(target, w.Int, w.Int)
			d[len(d)-1] ^= 1
			w.CRL.Set(path, origin.Good(d))
		case "unknown-signer":
			w.CRL.Set(path, origin.Good(buildVersion(target, sibling, sibling)))
		case "tempstore-create-fails":
			w.CRL.Set(path, origin.Good(buildVersion(target, w.Int, w.Int)))
			ff.failCreate.Store(true)
		case "insert-fails@1", "insert-fails@mid", "insert-fails@last":
			w.CRL.Set(path, origin.Good(buildVersion(target, w.Int, w.Int)))
			k := map[string]int64{"insert-fails@1": 1, "insert-fails@mid": nEntries / 2, "insert-fails@last": nEntries}[f]
			ff.ser.arm(k)
		case "swap-fails":
			w.CRL.Set(path, origin.Good(buildVersion(target, w.Int, w.Int)))
			swapFault.Store(true)
		case "signer-now-known":
			// the origin keeps serving the bytes of the preceding unknown-signer step
			target = si
			useChains = chainsWithSibling
		case "refused":
			// cannot change the URL of the CDP; a closed port is simulated by closing the listener path: use truncate of zero bytes + connection close
			w.CRL.Set(path, origin.Truncate(buildVersion(target, w.Int, w.Int), 0))
		case "truncated-download":
			d := buildVersion(target, w.Int, w.Int)
			w.CRL.Set(path, origin.Truncate(d, len(d)/2))
		}
		time.Sleep(300 * time.Microsecond)
		refreshing.Store(true)
		t0 := now()
		var res string
		if hs.Unknown && f != "signer-now-known" {
			chk.C.VerifUpdateCRLs(true)
			res = "unknown"
		} else {
			err := repo.UpdateCRL(locs, useChains)
			if err == nil {
				res = "ok"
			} else {
				res = "err"
				lastRefreshErr = err.Error()
			}
		}
		t1 := now()
		inSwap.Store(false)
		time.Sleep(400 * time.Microsecond) // readers keep going right after the refresh
		refreshing.Store(false)
		rec.add(porcupine.Operation{ClientId: hs.Readers, Input: opIn{Kind: "refresh", Target: target, Fault: f}, Call: t0, Output: opOut{Result: res}, Return: t1})
		// reference expectation about the outcome itself (retention / "later successful refresh takes effect")
		if res == "ok" && f != "ok" && f != "signer-now-known" {
			run.Violation("refresh-reported-success-under-fault."+f+"."+hs.Backend, hs.String()+": refresh step "+fmt.Sprint(si)+" ("+f+") returned success", &report.Replay{Case: hs.String()})
		}
		if res == "err" && (f == "ok" || f == "signer-now-known") {
			run.Violation("healthy-refresh-failed.after-"+prevStep(hs.Steps, si)+"."+hs.Backend, hs.String()+": a healthy refresh failed at step "+fmt.Sprint(si)+": "+lastRefreshErr, &report.Replay{Case: hs.String()})
		}
		if f == "ok" || f == "signer-now-known" {
			state = target
		}
	}
	stop.Store(true)
	wg.Wait()
	ff.failCreate.Store(false)
	ff.ser.arm(0)
	// final sequential probes (quiescent): appended to the history
	for _, p := range probes {
		t0 := now()
		st, err := chk.C.IsRevoked(p.chain[0], [][]*x509.Certificate{p.chain})
		t1 := now()
		if err != nil {
			lookupErrs.Add(1)
			firstLookupErr.CompareAndSwap(nil, fmt.Sprintf("final lookup(%s): %v", p.tag, err))
			continue
		}
		rec.add(porcupine.Operation{ClientId: hs.Readers + 1, Input: opIn{Kind: "lookup", Tag: p.tag}, Call: t0, Output: opOut{Revoked: st.Revoked}, Return: t1})
	}
	_ = state
	run.Eval(1)
	run.Count("operations_recorded", int64(len(rec.ops)))
	if n := lookupErrs.Load(); n > 0 {
		msg, _ := firstLookupErr.Load().(string)
		run.Violation("lookup-error."+hs.Backend+".during-"+strings.Join(hs.Steps, "+"), fmt.Sprintf("%s: %d lookups returned an error instead of an answer from the old or new list; first: %s", hs, n, msg), &report.Replay{Case: hs.String()})
	}
	res, info := porcupine.CheckOperationsVerbose(model(), rec.ops, 60*time.Second)
	run.Count("porcupine_"+string(res), 1)
	switch res {
	case porcupine.Unknown:
		run.Inconclusive("checker timeout on " + hs.String())
		return
	case porcupine.Illegal:
		vis := filepath.Join(scratch, fmt.Sprintf("h%d.html", idx))
		_ = porcupine.VisualizePath(model(), info, vis)
		html, _ := os.ReadFile(vis)
		var lines []string
		for _, op := range rec.ops {
			lines = append(lines, fmt.Sprintf("c%d [%d,%d] %s", op.ClientId, op.Call, op.Return, model().DescribeOperation(op.Input, op.Output)))
		}
		run.Violation("not-linearizable."+hs.Backend+"."+classify(rec.ops), hs.String()+": history of "+fmt.Sprint(len(rec.ops))+" operations has no linearization against the single-version register", &report.Replay{Case: map[string]any{"history": hs.String(), "operations": lines}, Files: map[string][]byte{"history.html": html}})
		return
	}
	// overlap statistics
	overlapRefresh, overlapSwap := 0, 0
	var refreshIv [][2]int64
	for _, op := range rec.ops {
		if op.Input.(opIn).Kind == "refresh" {
			refreshIv = append(refreshIv, [2]int64{op.Call, op.Return})
		}
	}
	for _, op := range rec.ops {
		if op.Input.(opIn).Kind != "lookup" {
			continue
		}
		for _, iv := range refreshIv {
			if op.Call <= iv[1] && op.Return >= iv[0] {
				overlapRefresh++
				break
			}
		}
		for _, t := range swapTimes {
			if op.Call <= t && op.Return >= t {
				overlapSwap++
				break
			}
		}
	}
	run.Count("lookups_overlapping_a_refresh", int64(overlapRefresh))
	run.Count("lookups_overlapping_the_swap", int64(overlapSwap))
	if overlapSwap > 0 {
		run.Count("histories_with_lookup_overlapping_swap_"+hs.Backend, 1)
	}
	run.Distinct("hook_orderings", fmt.Sprint(hashStrings(hookOrder)))
	if overlapRefresh > 0 {
		run.NonTrivial(hs.String())
	}
	if idx%60 == 0 {
		run.Sample(map[string]any{"history": hs.String(), "operations": len(rec.ops), "lookups_overlapping_refresh": overlapRefresh, "lookups_overlapping_swap": overlapSwap, "swaps": len(swapTimes), "temp_stores_created": ff.tempStores.Load()})
	}
}

func prevStep(steps []string, i int) string {
	if i == 0 {
		return "start"
	}
	return steps[i-1]
}

func classify(ops []porcupine.Operation) string {
	// symptom class from what harness knows: which refresh outcomes the history contains
	kinds := map[string]bool{}
	for _, op := range ops {
		in := op.Input.(opIn)
		if in.Kind == "refresh" {
			kinds[in.Fault] = true
		}
	}
	var ks []string
	for _, f := range append(append([]string(nil), faults...), slowFaults...) {
		if kinds[f] {
			ks = append(ks, f)
		}
	}
	return "steps-" + strings.Join(ks, "+")
}

func hashStrings(xs []string) uint64 {
	var h uint64 = 1469598103934665603
	for _, s := range xs {
		for i := 0; i < len(s); i++ {
			h ^= uint64(s[i])
			h *= 1099511628211
		}
		h ^= 0xff
		h *= 1099511628211
	}
	return h
}
