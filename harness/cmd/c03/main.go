// c03: mode composition — the verdict is exactly what the configured mode promises
// (exhaustive truth table, reference decision model + hit-log and work-dir side conditions).
package main

import (
	"crypto/x509"
	"fmt"
	"math/big"
	"os"
	"path/filepath"
	"sort"
	"strings"

	"golang.org/x/crypto/ocsp"

	"math/rand"
	"verif/harness/lab/crlgen"
	"verif/harness/lab/gen"
	"verif/harness/lab/origin"
	"verif/harness/lab/pki"
	"verif/harness/lab/report"
	"verif/harness/lab/sut"
	"verif/harness/lab/world"

	"github.com/gr33nbl00d/caddy-revocation-validator/config"
)

var modes = []string{"", "prefer_ocsp", "prefer_crl", "ocsp_only", "crl_only", "disabled"}

// "*-after-refused": two responders are named, the first refuses the connection, the second answers
var ocspOutcomes = []string{"no-aia", "good", "revoked", "unavailable", "good-after-refused", "revoked-after-refused"}

// "listed-configured": the certificate names no CDP and is listed in the CRL configured by crl_files;
// "listed-configured+cdp-unavailable": same, and the certificate also names a CDP that cannot be loaded
var crlOutcomes = []string{"none-known", "listed", "not-listed", "cdp-unavailable", "listed-configured", "listed-configured+cdp-unavailable"}
var shapes = []string{"empty", "leaf-int-root", "two-chains", "leaf-int", "leaf-only"}

func ocspEnabled(m string) bool {
	return m == "" || m == "prefer_ocsp" || m == "prefer_crl" || m == "ocsp_only"
}
func crlEnabled(m string) bool {
	return m == "" || m == "prefer_ocsp" || m == "prefer_crl" || m == "crl_only"
}

// expectReject is the mode table, written out independently of the implementation.
func expectReject(mode, oc, cc, shape string, aiaStrict, cdpStrict bool) bool {
	if shape == "empty" {
		return false
	}
	r := false
	if ocspEnabled(mode) {
		r = r || strings.HasPrefix(oc, "revoked") || (oc == "unavailable" && aiaStrict)
	}
	if crlEnabled(mode) {
		r = r || strings.HasPrefix(cc, "listed") || (strings.HasSuffix(cc, "cdp-unavailable") && cdpStrict)
	}
	return r
}

func dirListing(dir string) string {
	var l []string
	_ = filepath.Walk(dir, func(p string, info os.FileInfo, err error) error {
		if err == nil {
			l = append(l, fmt.Sprintf("%s:%d:%v", strings.TrimPrefix(p, dir), info.Size(), info.IsDir()))
		}
		return nil
	})
	sort.Strings(l)
	return strings.Join(l, "\n")
}

type cfgKey struct {
	Mode      string
	AIAStrict bool
	CDPStrict bool
	Backend   string
}

func main() {
	run := report.New("C03", "exploration")
	run.Rule("cells = mode{unset,prefer_ocsp,prefer_crl,ocsp_only,crl_only,disabled} x OCSP{no AIA,good,revoked,unavailable,good / revoked from a second responder after the first refused the connection} x aia_strict x CRL{none names it,listed (CDP),not listed,CDP unavailable,listed in the configured crl_files CRL,listed there + CDP unavailable} x cdp_strict x backend x chain shape{empty, leaf-int-root, two chains, leaf-int, leaf only}; oracle = independently written mode table + side conditions from origin hit logs and a work_dir listing (disabled: no hits, work_dir untouched; ocsp_only: no CRL-origin hits; crl_only: no responder hits); non-trivial = cell whose chain list is non-empty (a mechanism could have decided); distinct = cell descriptor")
	run.Assume("'unavailable' is modelled by an origin answering HTTP 500 + html (fails without loader retries); the refused-connection variant is added in the thorough tier for a sample")
	scratch, _ := report.Scratch("C03")
	sut.QuietStderr(filepath.Join(scratch, "stderr.log"))

	var cfgs []cfgKey
	for _, m := range modes {
		for _, a := range []bool{false, true} {
			for _, c := range []bool{false, true} {
				for _, b := range []string{"memory", "disk"} {
					cfgs = append(cfgs, cfgKey{m, a, c, b})
				}
			}
		}
	}
	si, sn, isShard := report.Shard()
	if !isShard {
		run.RunShards(12, scratch)
		total := len(cfgs) * len(ocspOutcomes) * len(crlOutcomes) * len(shapes)
		run.Set("cells_in_space", total)
		run.Exhaustive(run.Counter("cells_run") == int64(total))
		run.Finish(1000)
		return
	}

	w := world.New(fmt.Sprintf("C03-%d", si))
	cross := pki.NewRoot(pki.CertOpts{CN: "C03 cross root"})
	intPEM := pki.WritePEM(filepath.Join(scratch, "int.pem"), w.Int.Cert)
	rng := rand.New(rand.NewSource(run.Seed + int64(si)))
	// one CRL for all validators of this shard; listed serials are drawn from it
	entries := gen.Entries(rng, gen.Opts{N: 400, SerialWidth: 9, Exts: 1})
	listed := map[string]bool{}
	for _, e := range entries {
		listed[e.Serial.String()] = true
	}
	crlDER := gen.SpecFor(w.Int, entries).Build(w.Int.Key).DER
	nextListed := 0
	refused := origin.RefusedURL("/ocsp")
	// a second CRL of the same issuer, configured by crl_files for every validator
	cfgEntries := gen.Entries(rng, gen.Opts{N: 300, SerialWidth: 8})
	for _, e := range cfgEntries {
		listed[e.Serial.String()] = true
	}
	cfgCRLFile := filepath.Join(scratch, fmt.Sprintf("configured-%d.crl", si))
	_ = os.WriteFile(cfgCRLFile, gen.SpecFor(w.Int, cfgEntries).Build(w.Int.Key).DER, 0644)
	nextCfgListed := 0
	w.OCSP.SetDefault(origin.Status(404, nil))
	statusOf := map[string]int{}
	responder := world.Responder(w.Int, nil, nil, func(s *big.Int) world.OCSPStatus {
		return world.OCSPStatus{Status: statusOf[s.String()]}
	})

	for ci, k := range cfgs {
		if ci%sn != si {
			continue
		}
		prefix := fmt.Sprintf("/k%d", ci)
		w.CRL.Set(prefix+"/CRL/Issuing-CA.crl", origin.Good(crlgen.PEM(crlDER, "\n", true)))
		w.CRL.Set(prefix+"/bad", origin.Status(500, []byte("<html>internal error</html>")))
		w.OCSP.Set(prefix+"/OCSP/Issuing-CA", responder)
		w.OCSP.Set(prefix+"/OCSP/Unavailable", origin.Status(500, []byte("<html>internal error</html>")))
		workDir := filepath.Join(scratch, fmt.Sprintf("wd%d", ci))
		_ = os.MkdirAll(workDir, 0755)
		_ = os.WriteFile(filepath.Join(workDir, "foreign.txt"), []byte("keep"), 0644)
		before := dirListing(workDir)
		cfg := sut.CRLCfg(workDir, k.Backend, "verify", "fetch_actively", k.CDPStrict, "")
		cfg.TrustedSignatureCertsFiles = []string{intPEM}
		cfg.CRLFiles = []string{cfgCRLFile}
		v, err := sut.Provision(sut.Config{Mode: k.Mode, CRL: cfg, OCSP: &config.OCSPConfig{OCSPAIAStrict: k.AIAStrict, TrustedResponderCertsFiles: []string{intPEM}}})
		if err != nil {
			run.Violation("provision-failed", fmt.Sprintf("Provision failed for %+v: %v", k, err), &report.Replay{Case: k})
			continue
		}
		for _, oc := range ocspOutcomes {
			for _, cc := range crlOutcomes {
				for _, shape := range shapes {
					var serial *big.Int
					if cc == "listed" {
						serial = entries[nextListed%len(entries)].Serial
						nextListed++
					} else if strings.HasPrefix(cc, "listed-configured") {
						serial = cfgEntries[nextCfgListed%len(cfgEntries)].Serial
						nextCfgListed++
					} else {
						for {
							serial = gen.SerialOfWidth(rng, 10, false)
							if !listed[serial.String()] {
								break
							}
						}
					}
					var aia, cdp []string
					switch oc {
					case "good":
						aia = []string{w.OCSP.URL(prefix + "/OCSP/Issuing-CA")}
						statusOf[serial.String()] = ocsp.Good
					case "revoked":
						aia = []string{w.OCSP.URL(prefix + "/OCSP/Issuing-CA")}
						statusOf[serial.String()] = ocsp.Revoked
					case "unavailable":
						aia = []string{w.OCSP.URL(prefix + "/OCSP/Unavailable")}
					case "good-after-refused":
						aia = []string{refused, w.OCSP.URL(prefix + "/OCSP/Issuing-CA")}
						statusOf[serial.String()] = ocsp.Good
					case "revoked-after-refused":
						aia = []string{refused, w.OCSP.URL(prefix + "/OCSP/Issuing-CA")}
						statusOf[serial.String()] = ocsp.Revoked
					}
					switch cc {
					case "listed", "not-listed":
						cdp = []string{w.CRL.URL(prefix + "/CRL/Issuing-CA.crl")}
					case "cdp-unavailable", "listed-configured+cdp-unavailable":
						cdp = []string{w.CRL.URL(prefix + "/bad")}
					}
					chain := w.Leaf(serial, cdp, aia)
					var chains [][]*x509.Certificate
					switch shape {
					case "leaf-int-root":
						chains = [][]*x509.Certificate{chain}
					case "two-chains":
						chains = [][]*x509.Certificate{chain, {chain[0], w.Int.Cert, cross.Cert}}
					case "leaf-int":
						chains = [][]*x509.Certificate{chain[:2]}
					case "leaf-only":
						// the client certificate itself is a trust anchor of the server: the issuer is
						// known to the validator only as configured trusted signer / responder certificate
						chains = [][]*x509.Certificate{chain[:1]}
					}
					err := v.Verify(chains...)
					want := expectReject(k.Mode, oc, cc, shape, k.AIAStrict, k.CDPStrict)
					desc := fmt.Sprintf("mode=%q ocsp=%s aia_strict=%v crl=%s cdp_strict=%v backend=%s chains=%s", k.Mode, oc, k.AIAStrict, cc, k.CDPStrict, k.Backend, shape)
					run.Eval(1)
					run.Count("cells_run", 1)
					if (err != nil) != want {
						got := "accepted"
						if err != nil {
							got = "rejected: " + err.Error()
						}
						key := fmt.Sprintf("verdict.%s.ocsp-%s.crl-%s.%s", modeName(k.Mode), oc, cc, map[bool]string{true: "wrongly-accepted", false: "wrongly-rejected"}[want])
						run.Violation(key, desc+" → "+got, &report.Replay{Case: map[string]any{"cell": desc, "got": got, "want_reject": want}})
						continue
					}
					if shape != "empty" {
						run.NonTrivial(desc)
					}
					if want {
						run.Count("cells_rejected", 1)
					} else {
						run.Count("cells_accepted", 1)
					}
				}
			}
		}
		_ = v.Cleanup()
		// side conditions
		crlHits, ocspHits := 0, 0
		for _, h := range w.CRL.Hits() {
			if strings.HasPrefix(h.Path, prefix+"/") {
				crlHits++
			}
		}
		for _, h := range w.OCSP.Hits() {
			if strings.HasPrefix(h.Path, prefix+"/") {
				ocspHits++
			}
		}
		run.Count("crl_origin_hits", int64(crlHits))
		run.Count("responder_hits", int64(ocspHits))
		after := dirListing(workDir)
		switch k.Mode {
		case "disabled":
			if crlHits != 0 || ocspHits != 0 {
				run.Violation("disabled.touches-network", fmt.Sprintf("mode disabled contacted origins: crl=%d ocsp=%d (%+v)", crlHits, ocspHits, k), &report.Replay{Case: k})
			}
			if before != after {
				run.Violation("disabled.touches-storage", fmt.Sprintf("mode disabled changed work_dir (%+v):\nbefore:\n%s\nafter:\n%s", k, before, after), &report.Replay{Case: k})
			}
		case "ocsp_only":
			if crlHits != 0 {
				run.Violation("ocsp_only.consults-crl", fmt.Sprintf("mode ocsp_only fetched CRLs %d times (%+v)", crlHits, k), &report.Replay{Case: k})
			}
			if before != after {
				run.Violation("ocsp_only.touches-crl-storage", fmt.Sprintf("mode ocsp_only changed work_dir (%+v)", k), &report.Replay{Case: k})
			}
		case "crl_only":
			if ocspHits != 0 {
				run.Violation("crl_only.contacts-ocsp", fmt.Sprintf("mode crl_only contacted responders %d times (%+v)", ocspHits, k), &report.Replay{Case: k})
			}
		}
		if ocspEnabled(k.Mode) && ocspHits == 0 {
			run.Violation("ocsp-enabled.never-contacted-responder", fmt.Sprintf("no responder hit although OCSP is enabled (%+v)", k), &report.Replay{Case: k})
		}
		if crlEnabled(k.Mode) && crlHits == 0 {
			run.Violation("crl-enabled.never-fetched-cdp", fmt.Sprintf("no CRL-origin hit although CRL checking is enabled (%+v)", k), &report.Replay{Case: k})
		}
		if ci%7 == 0 {
			run.Sample(map[string]any{"config": fmt.Sprintf("%+v", k), "crl_origin_hits": crlHits, "responder_hits": ocspHits, "cells": 80})
		}
		_ = os.RemoveAll(workDir)
	}
	w.Close()
	run.FinishShard()
}

func modeName(m string) string {
	if m == "" {
		return "unset"
	}
	return m
}
