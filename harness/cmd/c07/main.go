// c07: parser totality — hostile bytes yield an error, never a crash, a huge allocation or a
// loop (child-process crash monitor + allocation/CPU resource monitor).
package main

import (
	"bytes"
	"crypto/ecdsa"
	"crypto/x509"
	"encoding/json"
	"fmt"
	"math/big"
	"math/rand"
	"os"
	"os/exec"
	"path/filepath"
	"runtime"
	"runtime/debug"
	"sort"
	"strconv"
	"strings"
	"sync"
	"syscall"
	"time"

	"github.com/gr33nbl00d/caddy-revocation-validator/config"
	"github.com/gr33nbl00d/caddy-revocation-validator/core"
	"github.com/gr33nbl00d/caddy-revocation-validator/crl"
	"github.com/gr33nbl00d/caddy-revocation-validator/crl/crlreader"
	"github.com/gr33nbl00d/caddy-revocation-validator/crl/crlrepository"
	"github.com/gr33nbl00d/caddy-revocation-validator/crl/crlstore"

	"verif/harness/lab/crlgen"
	"verif/harness/lab/der"
	"verif/harness/lab/gen"
	"verif/harness/lab/l2"
	"verif/harness/lab/origin"
	"verif/harness/lab/pki"
	"verif/harness/lab/report"
)

type input struct {
	Idx   int    `json:"idx"`
	Class string `json:"class"`
	Desc  string `json:"desc"`
	Valid bool   `json:"valid"`
	// Unbacked: contains a length field not backed by data (decides which allocation bound applies)
	Unbacked bool `json:"unbacked"`
}

type result struct {
	Idx       int    `json:"idx"`
	Size      int    `json:"size"`
	ReadErr   string `json:"read_err,omitempty"`
	ReadPanic string `json:"read_panic,omitempty"`
	ReadAlloc uint64 `json:"read_alloc"`
	ReadCPUms int64  `json:"read_cpu_ms"`
	RepoErr   string `json:"repo_err,omitempty"`
	RepoPanic string `json:"repo_panic,omitempty"`
	RepoAlloc uint64 `json:"repo_alloc"`
	RepoCPUms int64  `json:"repo_cpu_ms"`
	Entries   int    `json:"entries"`
}

type nullProc struct{ n int }

func (p *nullProc) StartUpdateCrl(*crlreader.CRLMetaInfo) error                  { return nil }
func (p *nullProc) InsertRevokedCertificate(*crlreader.CRLEntry) error           { p.n++; return nil }
func (p *nullProc) UpdateExtendedMetaInfo(*crlreader.ExtendedCRLMetaInfo) error  { return nil }
func (p *nullProc) UpdateSignatureCertificate(*core.CertificateChainEntry) error { return nil }

func cpuMs() int64 {
	var ru syscall.Rusage
	_ = syscall.Getrusage(syscall.RUSAGE_SELF, &ru)
	return (ru.Utime.Sec+ru.Stime.Sec)*1000 + int64(ru.Utime.Usec+ru.Stime.Usec)/1000
}

func panicKind(p any) string {
	s := fmt.Sprintf("%v", p)
	switch {
	case strings.Contains(s, "nil pointer"):
		return "nil-deref"
	case strings.Contains(s, "makeslice"):
		return "makeslice"
	case strings.Contains(s, "index out of range"):
		return "index-out-of-range"
	case strings.Contains(s, "slice bounds"):
		return "slice-bounds"
	case strings.Contains(s, "out of memory"):
		return "out-of-memory"
	}
	return "other"
}

func topRepoFrame() string {
	for _, l := range strings.Split(string(debug.Stack()), "\n") {
		if strings.Contains(l, "caddy-revocation-validator/") && strings.Contains(l, "(") && !strings.Contains(l, "verif/harness") {
			return strings.TrimSpace(l)
		}
	}
	return ""
}

// ---------------------------------------------------------------- child: batch mode

func childBatch(dir string, start int) {
	var inputs []input
	b, err := os.ReadFile(filepath.Join(dir, "manifest.json"))
	if err != nil {
		fmt.Println("child: no manifest", err)
		os.Exit(3)
	}
	_ = json.Unmarshal(b, &inputs)
	rootDER, _ := os.ReadFile(filepath.Join(dir, "root.der"))
	intDER, _ := os.ReadFile(filepath.Join(dir, "int.der"))
	root, _ := x509.ParseCertificate(rootDER)
	in, _ := x509.ParseCertificate(intDER)
	chains := core.NewCertificateChains([][]*x509.Certificate{{in, root}}, nil)
	logger := l2.DebugLogger()
	work := filepath.Join(dir, "work")
	_ = os.MkdirAll(work, 0755)
	out, _ := os.OpenFile(filepath.Join(dir, "results.jsonl"), os.O_CREATE|os.O_APPEND|os.O_WRONLY, 0644)
	defer out.Close()
	var ms runtime.MemStats
	for _, inp := range inputs {
		if inp.Idx < start {
			continue
		}
		_ = os.WriteFile(filepath.Join(dir, "marker"), []byte(strconv.Itoa(inp.Idx)), 0644)
		path := filepath.Join(dir, fmt.Sprintf("%06d.bin", inp.Idx))
		st, _ := os.Stat(path)
		res := result{Idx: inp.Idx}
		if st != nil {
			res.Size = int(st.Size())
		}
		// (a) reader alone
		func() {
			p := &nullProc{}
			runtime.ReadMemStats(&ms)
			a0, c0 := ms.TotalAlloc, cpuMs()
			defer func() {
				if r := recover(); r != nil {
					res.ReadPanic = panicKind(r) + " | " + fmt.Sprintf("%v", r) + " | " + topRepoFrame()
				}
				runtime.ReadMemStats(&ms)
				res.ReadAlloc, res.ReadCPUms = ms.TotalAlloc-a0, cpuMs()-c0
				res.Entries = p.n
			}()
			_, err := crlreader.StreamingCRLFileReader{}.ReadCRL(p, path)
			if err != nil {
				res.ReadErr = trunc(err.Error(), 120)
			}
		}()
		// (b) repository path in verify mode with a real chain
		func() {
			runtime.ReadMemStats(&ms)
			a0, c0 := ms.TotalAlloc, cpuMs()
			defer func() {
				if r := recover(); r != nil {
					res.RepoPanic = panicKind(r) + " | " + fmt.Sprintf("%v", r) + " | " + topRepoFrame()
				}
				runtime.ReadMemStats(&ms)
				res.RepoAlloc, res.RepoCPUms = ms.TotalAlloc-a0, cpuMs()-c0
			}()
			cfg := &config.CRLConfig{WorkDir: work, SignatureValidationModeParsed: config.SignatureValidationModeVerify,
				CDPConfig: &config.CDPConfig{CRLFetchModeParsed: config.CRLFetchModeActively, CRLCDPStrict: true}}
			err, repo := crlrepository.NewCRLRepository(logger, cfg, crlstore.Map)
			if err != nil {
				res.RepoErr = "newrepo: " + err.Error()
				return
			}
			_, err = repo.AddCRL(&core.CRLLocations{CRLFile: path}, chains)
			if err != nil {
				res.RepoErr = trunc(err.Error(), 120)
			}
			repo.Close()
		}()
		line, _ := json.Marshal(res)
		_, _ = out.Write(append(line, '\n'))
	}
	_ = os.WriteFile(filepath.Join(dir, "done"), []byte("ok"), 0644)
}

// ---------------------------------------------------------------- child: survival mode

// survival: a real CRLRevocationChecker whose origin serves hostile documents on the first-use
// path and on the refresh path; the process must stay alive and keep answering.
func childSurvive(dir string, start int) {
	var inputs []input
	b, _ := os.ReadFile(filepath.Join(dir, "manifest.json"))
	_ = json.Unmarshal(b, &inputs)
	rootDER, _ := os.ReadFile(filepath.Join(dir, "root.der"))
	intDER, _ := os.ReadFile(filepath.Join(dir, "int.der"))
	intKeyDER, _ := os.ReadFile(filepath.Join(dir, "int.key"))
	validCRL, _ := os.ReadFile(filepath.Join(dir, "valid.crl"))
	root, _ := x509.ParseCertificate(rootDER)
	in, _ := x509.ParseCertificate(intDER)
	key, err := x509.ParseECPrivateKey(intKeyDER)
	if err != nil {
		fmt.Println("child: key", err)
		os.Exit(3)
	}
	ca := &pki.CA{Cert: in, Key: key}
	org := origin.New()
	defer org.Close()
	work := filepath.Join(dir, "work-survive")
	_ = os.MkdirAll(work, 0755)
	cfg := &config.CRLConfig{WorkDir: work, SignatureValidationModeParsed: config.SignatureValidationModeVerify,
		StorageTypeParsed: config.Memory, UpdateIntervalParsed: 100 * time.Millisecond,
		CDPConfig: &config.CDPConfig{CRLFetchModeParsed: config.CRLFetchModeActively}}
	checker := &crl.CRLRevocationChecker{}
	if err := checker.Provision(cfg, l2.DebugLogger()); err != nil {
		fmt.Println("child: provision", err)
		os.Exit(3)
	}
	out, _ := os.OpenFile(filepath.Join(dir, "survive.jsonl"), os.O_CREATE|os.O_APPEND|os.O_WRONLY, 0644)
	defer out.Close()
	for _, inp := range inputs {
		if inp.Idx < start {
			continue
		}
		_ = os.WriteFile(filepath.Join(dir, "marker-survive"), []byte(strconv.Itoa(inp.Idx)), 0644)
		data, _ := os.ReadFile(filepath.Join(dir, fmt.Sprintf("%06d.bin", inp.Idx)))
		// first-use path
		p1 := fmt.Sprintf("/h%d", inp.Idx)
		org.Set(p1, origin.Good(data))
		leaf := ca.Leaf(pki.NextSerial(), []string{org.URL(p1)}, nil)
		chain := [][]*x509.Certificate{{leaf, in, root}}
		_, e1 := checker.IsRevoked(leaf, chain)
		// refresh path: valid first, then hostile, forced refresh
		p2 := fmt.Sprintf("/r%d", inp.Idx)
		org.Set(p2, origin.Good(validCRL))
		leaf2 := ca.Leaf(pki.NextSerial(), []string{org.URL(p2)}, nil)
		chain2 := [][]*x509.Certificate{{leaf2, in, root}}
		_, e2 := checker.IsRevoked(leaf2, chain2)
		org.Set(p2, origin.Good(data))
		checker.VerifUpdateCRLs(true)
		_, e3 := checker.IsRevoked(leaf2, chain2)
		line, _ := json.Marshal(map[string]any{"idx": inp.Idx, "first_use_err": e1 != nil, "valid_load_err": errStr(e2), "after_hostile_refresh_err": errStr(e3)})
		_, _ = out.Write(append(line, '\n'))
		// keep the number of known CRLs small so a refresh pass stays short
		if inp.Idx%25 == 24 {
			_ = checker.Cleanup()
			checker = &crl.CRLRevocationChecker{}
			if err := checker.Provision(cfg, l2.DebugLogger()); err != nil {
				fmt.Println("child: re-provision", err)
				os.Exit(3)
			}
		}
	}
	_ = checker.Cleanup()
	_ = os.WriteFile(filepath.Join(dir, "done-survive"), []byte("ok"), 0644)
}

func errStr(e error) string {
	if e == nil {
		return ""
	}
	return trunc(e.Error(), 100)
}

func trunc(s string, n int) string {
	if len(s) > n {
		return s[:n]
	}
	return s
}

// ---------------------------------------------------------------- parent

type corpus struct {
	inputs []input
	data   [][]byte
}

// unbacked reports whether the generator knows the input to contain a declared length that the
// bytes behind it do not back (the situation the allocation clause of the property is about).
// Random inputs are at most 64 bytes, so any large allocation there can only come from a length field.
func unbacked(class string) bool {
	if strings.HasPrefix(class, "truncation.") || class == "random" {
		return true
	}
	for _, k := range []string{"huge", "unbacked", "plus", "allones", "topbit", "inner-len", "len-plus", "indefinite"} {
		if strings.Contains(class, k) {
			return true
		}
	}
	return false
}

func (c *corpus) add(class, desc string, data []byte, valid bool) {
	c.inputs = append(c.inputs, input{Idx: len(c.inputs), Class: class, Desc: desc, Valid: valid, Unbacked: unbacked(class)})
	c.data = append(c.data, data)
}

func beLen(v uint64, nbytes int) []byte {
	b := make([]byte, nbytes)
	for i := nbytes - 1; i >= 0; i-- {
		b[i] = byte(v)
		v >>= 8
	}
	return b
}

// lengthForms returns alternative length octets for a node whose true content length is l.
func lengthForms(l int, thorough bool) map[string][]byte {
	f := map[string][]byte{}
	f["indefinite-0x80"] = []byte{0x80}
	for nb := 1; nb <= 15; nb++ {
		if !thorough && nb > 5 && nb != 8 && nb != 9 && nb != 15 {
			continue
		}
		if nb >= 4 || l < 1<<(8*uint(nb)) {
			// non-minimal form carrying the true length
			if nb <= 8 {
				f[fmt.Sprintf("nonminimal-0x8%X-true", nb)] = append([]byte{0x80 | byte(nb)}, beLen(uint64(l), nb)...)
			} else {
				f[fmt.Sprintf("nonminimal-0x8%X-true", nb)] = append([]byte{0x80 | byte(nb)}, append(make([]byte, nb-8), beLen(uint64(l), 8)...)...)
			}
		}
		// all-ones of this width
		f[fmt.Sprintf("allones-0x8%X", nb)] = append([]byte{0x80 | byte(nb)}, bytes.Repeat([]byte{0xff}, nb)...)
	}
	f["huge-2^31-1"] = append([]byte{0x84}, beLen(1<<31-1, 4)...)
	f["huge-2^31"] = append([]byte{0x84}, beLen(1<<31, 4)...)
	f["huge-2^32"] = append([]byte{0x85}, beLen(1<<32, 5)...)
	f["huge-2^63-1"] = append([]byte{0x88}, beLen(1<<63-1, 8)...)
	f["topbit-2^63"] = append([]byte{0x88}, beLen(1<<63, 8)...)
	f["unbacked-256MiB"] = append([]byte{0x84}, beLen(256<<20, 4)...)
	f["unbacked-10MiB"] = append([]byte{0x83}, beLen(10<<20, 3)...)
	f["unbacked-70000"] = append([]byte{0x83}, beLen(70000, 3)...)
	f["plus1"] = der.Len(l + 1)
	f["plus1000"] = der.Len(l + 1000)
	if l > 0 {
		f["minus1"] = der.Len(l - 1)
	}
	f["zero"] = []byte{0}
	return f
}

func nodeClass(n *der.Node) string {
	switch n.Tag {
	case 0x30, 0x31:
		return "constructed"
	case 0xa0, 0xa1, 0xa3:
		return "context"
	case 0x17, 0x18:
		return "time"
	case 0x03:
		return "bitstring"
	case 0x04:
		return "octetstring"
	case 0x02:
		return "integer"
	case 0x06:
		return "oid"
	}
	return "primitive"
}

func buildCorpus(run *report.Run, rng *rand.Rand, root, in *pki.CA) (*corpus, []byte) {
	c := &corpus{}
	thorough := run.Thorough()
	rsaCA := root.Issue(pki.CertOpts{CN: "C07 RSA issuing", IsCA: true, Key: pki.RSAKey(0)})
	_ = rsaCA
	// ---- valid corpus
	mk := func(ca *pki.CA, o gen.Opts) *crlgen.Spec {
		s := gen.SpecFor(ca, gen.Entries(rng, o))
		if o.V1 {
			s.Version = -1
			s.Exts = nil
		}
		if o.NoCrlExts {
			s.Exts = nil
		}
		return s
	}
	valid := []*crlgen.Spec{
		mk(in, gen.Opts{N: 3, Exts: 2, GenTimeMix: true}),
		mk(in, gen.Opts{N: 0}),
		mk(in, gen.Opts{N: 2, V1: true}),
		mk(in, gen.Opts{N: 200, Exts: 4}),
		mk(in, gen.Opts{N: 4, Exts: 3}),
		mk(in, gen.Opts{N: 1, NoCrlExts: true}),
	}
	valid[0].Exts = [][]byte{crlgen.AKIIssuerSerial(in.Cert.SubjectKeyId, in.Cert.RawIssuer, in.Cert.SerialNumber), crlgen.CRLNumberExt(big.NewInt(9)), crlgen.FillerExt(40)}
	var validDER [][]byte
	for i, s := range valid {
		b := s.Build(in.Key)
		validDER = append(validDER, b.DER)
		c.add("valid", fmt.Sprintf("valid#%d der", i), b.DER, true)
		c.add("valid", fmt.Sprintf("valid#%d pem-lf", i), crlgen.PEM(b.DER, "\n", true), true)
		c.add("valid", fmt.Sprintf("valid#%d pem-crlf", i), crlgen.PEM(b.DER, "\r\n", true), true)
	}
	for n := 10; n <= 1500; n += 149 {
		b := mk(in, gen.Opts{N: n, Exts: 4}).Build(in.Key)
		c.add("valid", fmt.Sprintf("valid n=%d der", n), b.DER, true)
	}
	// ---- random bytes
	nrand := 600
	if thorough {
		nrand = 20000
	}
	for i := 0; i < nrand; i++ {
		b := make([]byte, rng.Intn(65))
		rng.Read(b)
		if i%3 == 0 && len(b) > 2 {
			b[0] = 0x30 // looks like a SEQUENCE
		}
		if i%7 == 0 && len(b) > 4 {
			b[0], b[1] = 0x30, 0x80|byte(1+rng.Intn(15))
		}
		c.add("random", fmt.Sprintf("random#%d", i), b, false)
	}
	// ---- truncations
	for i, d := range validDER {
		if i == 3 && !thorough {
			continue
		}
		step := 1
		if len(d) > 3000 {
			step = 37
		}
		for k := 0; k < len(d); k += step {
			c.add("truncation.der", fmt.Sprintf("valid#%d der[:%d]", i, k), d[:k], false)
		}
		p := crlgen.PEM(d, "\n", true)
		if len(p) > 4000 {
			step = 53
		}
		for k := 0; k < len(p); k += step {
			c.add("truncation.pem", fmt.Sprintf("valid#%d pem[:%d]", i, k), p[:k], false)
		}
	}
	// ---- structure-aware mutants of small valid CRLs
	for _, vi := range []int{0, 2, 5, 1} {
		doc := validDER[vi]
		tree, err := der.Parse(doc)
		if err != nil {
			panic("harness: cannot parse own CRL: " + err.Error())
		}
		var nodes []*der.Node
		tree.Walk(func(n *der.Node) { nodes = append(nodes, n) })
		for _, n := range nodes {
			target := n
			content := doc[n.Off+n.HdrLen : n.Off+n.HdrLen+n.Len]
			for name, lf := range lengthForms(n.Len, thorough) {
				repl := append(append([]byte{n.Tag}, lf...), content...)
				// variant 1: parents consistent with the new bytes
				m1 := tree.Rebuild(doc, func(x *der.Node) []byte {
					if x == target {
						return repl
					}
					return nil
				})
				c.add("length."+name+"."+nodeClass(n), fmt.Sprintf("valid#%d node %s tag %#x len-form %s (parents fixed)", vi, n.Path, n.Tag, name), m1, false)
				// variant 2: only the length octets replaced in place
				if thorough || rng.Intn(3) == 0 {
					m2 := append(append(append([]byte(nil), doc[:n.Off+1]...), lf...), doc[n.Off+n.HdrLen:]...)
					c.add("length."+name+"."+nodeClass(n), fmt.Sprintf("valid#%d node %s tag %#x len-form %s (in place)", vi, n.Path, n.Tag, name), m2, false)
				}
			}
			// tag swaps
			for _, t := range []byte{0x30, 0x31, 0x02, 0x03, 0x04, 0x05, 0x06, 0x17, 0x18, 0xa0, 0xa1, 0x80, 0x00, 0xff, 0x1f} {
				if t == n.Tag {
					continue
				}
				m := append([]byte(nil), doc...)
				m[n.Off] = t
				c.add("tag-swap."+nodeClass(n), fmt.Sprintf("valid#%d node %s tag %#x -> %#x", vi, n.Path, n.Tag, t), m, false)
			}
			// delete / duplicate / empty
			mDel := tree.Rebuild(doc, func(x *der.Node) []byte {
				if x == target {
					return []byte{}
				}
				return nil
			})
			if n != tree {
				c.add("node-deleted."+nodeClass(n), fmt.Sprintf("valid#%d node %s deleted", vi, n.Path), mDel, false)
				whole := doc[n.Off : n.Off+n.HdrLen+n.Len]
				mDup := tree.Rebuild(doc, func(x *der.Node) []byte {
					if x == target {
						return append(append([]byte(nil), whole...), whole...)
					}
					return nil
				})
				c.add("node-duplicated."+nodeClass(n), fmt.Sprintf("valid#%d node %s duplicated", vi, n.Path), mDup, false)
			}
			if n.Tag&0x20 != 0 {
				mEmpty := tree.Rebuild(doc, func(x *der.Node) []byte {
					if x == target {
						return []byte{x.Tag, 0}
					}
					return nil
				})
				c.add("empty-constructed", fmt.Sprintf("valid#%d node %s emptied", vi, n.Path), mEmpty, false)
			}
		}
		// nesting depth
		depths := []int{1, 2, 10, 100, 500, 1000, 2000}
		if thorough {
			depths = append(depths, 5000, 20000)
		}
		for _, dp := range depths {
			for _, inner := range [][]byte{{0x05, 0}, {}} {
				nest := inner
				for i := 0; i < dp; i++ {
					nest = der.Seq(nest)
				}
				for _, which := range []int{1, 2, len(nodes) / 2} {
					if which >= len(nodes) {
						continue
					}
					target := nodes[which]
					m := tree.Rebuild(doc, func(x *der.Node) []byte {
						if x == target {
							return nest
						}
						return nil
					})
					if len(m) < 120000 {
						c.add("nesting", fmt.Sprintf("valid#%d node %s replaced by nesting depth %d", vi, target.Path, dp), m, false)
					}
				}
			}
		}
	}
	// ---- byte sweep: every byte of a small valid CRL replaced by length-like / extreme values
	{
		vals := []byte{0x84, 0x88, 0xff}
		if thorough {
			vals = []byte{0x00, 0x01, 0x7f, 0x80, 0x81, 0x82, 0x83, 0x84, 0x85, 0x87, 0x88, 0x89, 0x8f, 0xa0, 0x30, 0xff}
		}
		for _, vi := range []int{0, 5} {
			doc := validDER[vi]
			for pos := 0; pos < len(doc); pos++ {
				for _, v := range vals {
					if doc[pos] == v {
						continue
					}
					m := append([]byte(nil), doc...)
					m[pos] = v
					// a byte that becomes a long-form length octet makes the following bytes a length:
					// such inputs contain an unbacked length
					cls := "byte-sweep.plus"
					c.add(cls, fmt.Sprintf("valid#%d byte %d := %#x", vi, pos, v), m, false)
				}
			}
		}
	}
	// ---- PEM armour
	d0 := validDER[0]
	pemLF := string(crlgen.PEM(d0, "\n", true))
	lines := strings.Split(strings.TrimSuffix(pemLF, "\n"), "\n")
	body := strings.Join(lines[1:len(lines)-1], "")
	pems := map[string]string{
		"empty-file":          "",
		"header-only":         "-----BEGIN X509 CRL-----\n",
		"header-no-newline":   "-----BEGIN X509 CRL-----",
		"no-end":              strings.Join(lines[:len(lines)-1], "\n") + "\n",
		"no-final-newline":    strings.TrimSuffix(pemLF, "\n"),
		"cr-only":             strings.ReplaceAll(pemLF, "\n", "\r"),
		"one-10k-line":        "-----BEGIN X509 CRL-----\n" + strings.Repeat(body, 10000/len(body)+1) + "\n-----END X509 CRL-----\n",
		"single-long-line":    "-----BEGIN X509 CRL-----\n" + body + "\n-----END X509 CRL-----\n",
		"76-col":              "-----BEGIN X509 CRL-----\n" + wrap(body, 76) + "-----END X509 CRL-----\n",
		"blank-lines":         strings.ReplaceAll(pemLF, "\n", "\n\n"),
		"garbage-in-body":     lines[0] + "\n" + lines[1] + "\n!!!!@@@@####$$$$\n" + strings.Join(lines[2:], "\n") + "\n",
		"bad-padding":         lines[0] + "\n" + lines[1] + "=\n" + strings.Join(lines[2:], "\n") + "\n",
		"double-begin":        lines[0] + "\n" + pemLF,
		"begin-only-dashes":   "-----\n" + strings.Join(lines[1:], "\n") + "\n",
		"nul-bytes":           lines[0] + "\n" + strings.Repeat("\x00", 64) + "\n" + strings.Join(lines[1:], "\n"),
		"leading-whitespace":  "  \n" + pemLF,
		"trailing-junk":       pemLF + "junk after end\n",
		"body-not-base64-der": "-----BEGIN X509 CRL-----\nAAAA\n-----END X509 CRL-----\n",
		"huge-line-no-nl":     "-----BEGIN X509 CRL-----\n" + strings.Repeat("A", 90000),
		"begin-then-binary":   "-----BEGIN X509 CRL-----\n" + string(d0),
	}
	var pk []string
	for k := range pems {
		pk = append(pk, k)
	}
	sort.Strings(pk)
	for _, k := range pk {
		c.add("pem-armour."+k, "pem "+k, []byte(pems[k]), false)
	}
	// ---- hostile AKI values and issuer names inside correctly signed CRLs
	akiOID := "2.5.29.35"
	goodAKI := der.Seq(der.ImplicitPrim(0, in.Cert.SubjectKeyId))
	akiVals := map[string][]byte{
		"empty-seq":            der.Seq(),
		"empty-value":          {},
		"not-a-sequence":       der.Octets([]byte{1, 2, 3}),
		"keyid-empty":          der.Seq(der.ImplicitPrim(0, nil)),
		"keyid-huge":           der.Seq(der.ImplicitPrim(0, bytes.Repeat([]byte{7}, 60000))),
		"serial-only":          der.Seq(der.ImplicitPrim(2, []byte{1})),
		"issuer-only":          der.Seq(der.TLV(0xa1, der.TLV(0xa4, in.Cert.RawIssuer))),
		"issuer-garbage":       der.Seq(der.TLV(0xa1, []byte{0xa4, 0x03, 0xff, 0xff, 0xff}), der.ImplicitPrim(2, []byte{1})),
		"issuer-empty":         der.Seq(der.TLV(0xa1), der.ImplicitPrim(2, []byte{1})),
		"issuer-dns-name":      der.Seq(der.TLV(0xa1, der.TLV(0x82, []byte("example.org"))), der.ImplicitPrim(2, []byte{1})),
		"issuer-dirname-empty": der.Seq(der.TLV(0xa1, der.TLV(0xa4)), der.ImplicitPrim(2, in.Cert.SerialNumber.Bytes())),
		"issuer-dirname-bad":   der.Seq(der.TLV(0xa1, der.TLV(0xa4, []byte{0x30, 0x84, 0x7f, 0xff, 0xff, 0xff})), der.ImplicitPrim(2, in.Cert.SerialNumber.Bytes())),
		"issuer-nested-ctx":    der.Seq(der.TLV(0xa1, der.TLV(0xa4, der.TLV(0xa4, der.TLV(0xa4, der.TLV(0xa4, in.Cert.RawIssuer))))), der.ImplicitPrim(2, in.Cert.SerialNumber.Bytes())),
		"inner-len-huge":       {0x30, 0x84, 0x7f, 0xff, 0xff, 0xff, 0x80, 0x01, 0x01},
		"inner-len-topbit":     {0x30, 0x88, 0x80, 0, 0, 0, 0, 0, 0, 0, 0x80, 0x01, 0x01},
		"trailing-data":        append(append([]byte(nil), goodAKI...), 0xde, 0xad),
		"unknown-tag-9":        der.Seq(der.ImplicitPrim(9, []byte{1, 2})),
		"serial-huge":          der.Seq(der.TLV(0xa1, der.TLV(0xa4, in.Cert.RawIssuer)), der.ImplicitPrim(2, bytes.Repeat([]byte{0x7f}, 5000))),
		"all-three-wrong":      der.Seq(der.ImplicitPrim(0, []byte{1}), der.TLV(0xa1, der.TLV(0xa4, root.Cert.RawSubject)), der.ImplicitPrim(2, []byte{5})),
	}
	var ak []string
	for k := range akiVals {
		ak = append(ak, k)
	}
	sort.Strings(ak)
	for _, k := range ak {
		for _, n := range []int{0, 2} {
			s := mk(in, gen.Opts{N: n})
			s.Exts = [][]byte{der.Ext(akiOID, false, akiVals[k]), crlgen.CRLNumberExt(big.NewInt(1))}
			c.add("aki-hostile."+k, fmt.Sprintf("signed CRL n=%d with AKI %s", n, k), s.Build(in.Key).DER, false)
		}
	}
	crlNumVals := map[string][]byte{
		"empty":       {},
		"not-integer": der.Octets([]byte{1}),
		"huge-len":    {0x02, 0x84, 0x7f, 0xff, 0xff, 0xff, 0x01},
		"topbit-len":  {0x02, 0x88, 0x80, 0, 0, 0, 0, 0, 0, 0, 0x01},
		"len-plus":    {0x02, 0x05, 0x01},
		"big":         der.Int(new(big.Int).Lsh(big.NewInt(1), 4000)),
	}
	for k, val := range crlNumVals {
		s := mk(in, gen.Opts{N: 1})
		s.Exts = [][]byte{crlgen.AKIKeyID(in.Cert.SubjectKeyId), der.Ext("2.5.29.20", false, val)}
		c.add("crlnumber-hostile."+k, "signed CRL with CRL number value "+k, s.Build(in.Key).DER, false)
	}
	rdnVals := map[string][]byte{
		"empty-seq":    der.Seq(),
		"empty-set":    der.Seq(der.Set()),
		"atv-no-value": der.Seq(der.Set(der.Seq(der.OID("2.5.4.3")))),
		"huge-value":   der.Name([]der.ATV{{"2.5.4.3", der.TagUTF8String, strings.Repeat("x", 70000)}}),
		"over-limit":   der.Name([]der.ATV{{"2.5.4.3", der.TagUTF8String, strings.Repeat("y", 90000)}}),
		"bad-utf8":     der.Seq(der.Set(der.Seq(der.OID("2.5.4.3"), der.TLV(der.TagUTF8String, []byte{0xff, 0xfe, 0xfd})))),
		"nested-100": func() []byte {
			b := []byte{}
			for i := 0; i < 100; i++ {
				b = der.Seq(b)
			}
			return b
		}(),
		"many-rdns": func() []byte {
			var p [][]byte
			for i := 0; i < 3000; i++ {
				p = append(p, der.Set(der.Seq(der.OID("2.5.4.3"), der.Str(der.TagUTF8String, "a"))))
			}
			return der.Seq(p...)
		}(),
		"value-is-seq":   der.Seq(der.Set(der.Seq(der.OID("2.5.4.3"), der.Seq(der.Null())))),
		"oid-empty":      der.Seq(der.Set(der.Seq([]byte{0x06, 0x00}, der.Str(der.TagUTF8String, "a")))),
		"not-a-sequence": der.Set(der.Seq(der.OID("2.5.4.3"), der.Str(der.TagUTF8String, "a"))),
	}
	var rk []string
	for k := range rdnVals {
		rk = append(rk, k)
	}
	sort.Strings(rk)
	for _, k := range rk {
		s := mk(in, gen.Opts{N: 2})
		s.IssuerRaw = rdnVals[k]
		c.add("rdn-hostile."+k, "signed CRL with issuer "+k, s.Build(in.Key).DER, false)
	}
	// signature / algorithm oddities
	{
		s := mk(in, gen.Opts{N: 1})
		b := s.Build(in.Key)
		c.add("signature-hostile.empty-bitstring", "signature BIT STRING empty", crlgen.Assemble(b.TBS, s.Alg.AlgID(), nil)[:len(crlgen.Assemble(b.TBS, s.Alg.AlgID(), nil))], false)
		c.add("signature-hostile.ecdsa-garbage", "ECDSA signature not a SEQUENCE", crlgen.Assemble(b.TBS, s.Alg.AlgID(), []byte{1, 2, 3, 4}), false)
		c.add("signature-hostile.ecdsa-zero", "ECDSA signature r=s=0", crlgen.Assemble(b.TBS, s.Alg.AlgID(), der.Seq(der.SmallInt(0), der.SmallInt(0))), false)
		c.add("signature-hostile.ecdsa-negative", "ECDSA signature negative r", crlgen.Assemble(b.TBS, s.Alg.AlgID(), der.Seq(der.SmallInt(-5), der.SmallInt(7))), false)
		c.add("signature-hostile.ecdsa-huge", "ECDSA signature 4000-bit r", crlgen.Assemble(b.TBS, s.Alg.AlgID(), der.Seq(der.Int(new(big.Int).Lsh(big.NewInt(1), 4000)), der.SmallInt(7))), false)
		rsaAlg := crlgen.AlgByName("sha256WithRSA")
		s2 := mk(in, gen.Opts{N: 1})
		s2.Alg = rsaAlg
		tbs, _ := s2.TBS()
		c.add("signature-hostile.rsa-alg-ec-key", "RSA algorithm, signer is an EC key", crlgen.Assemble(tbs, rsaAlg.AlgID(), bytes.Repeat([]byte{1}, 256)), false)
		c.add("signature-hostile.alg-oid-unknown", "unknown signature algorithm oid", crlgen.Assemble(b.TBS, der.AlgID("1.2.3.4.5", false), b.Sig), false)
		c.add("signature-hostile.alg-empty-seq", "signatureAlgorithm empty SEQUENCE", crlgen.Assemble(b.TBS, der.Seq(), b.Sig), false)
		c.add("signature-hostile.alg-missing", "signatureAlgorithm and signature missing", der.Seq(b.TBS), false)
	}
	return c, validDER[0]
}

func wrap(s string, n int) string {
	var b strings.Builder
	for len(s) > n {
		b.WriteString(s[:n] + "\n")
		s = s[n:]
	}
	b.WriteString(s + "\n")
	return b.String()
}

func readResults(path string) map[int]result {
	out := map[int]result{}
	b, err := os.ReadFile(path)
	if err != nil {
		return out
	}
	for _, l := range bytes.Split(b, []byte("\n")) {
		if len(l) == 0 {
			continue
		}
		var r result
		if json.Unmarshal(l, &r) == nil {
			out[r.Idx] = r
		}
	}
	return out
}

func readMarker(path string) int {
	b, err := os.ReadFile(path)
	if err != nil {
		return -1
	}
	v, err := strconv.Atoi(strings.TrimSpace(string(b)))
	if err != nil {
		return -1
	}
	return v
}

func procCPUms(pid int) int64 {
	b, err := os.ReadFile(fmt.Sprintf("/proc/%d/stat", pid))
	if err != nil {
		return -1
	}
	s := string(b)
	i := strings.LastIndex(s, ")")
	f := strings.Fields(s[i+1:])
	if len(f) < 14 {
		return -1
	}
	ut, _ := strconv.ParseInt(f[11], 10, 64)
	st, _ := strconv.ParseInt(f[12], 10, 64)
	return (ut + st) * 10
}

type death struct {
	Idx    int
	Kind   string // fatal kind or "hang-busy" / "hang-blocked"
	Detail string
}

// runChild runs one child over dir from start; returns the death (if any) and whether it finished.
func runChild(bin, mode, dir string, start int, ulimitKB int, markerFile, doneFile string) (*death, bool) {
	logPath := filepath.Join(dir, fmt.Sprintf("child-%s-%d.log", mode, start))
	sh := fmt.Sprintf("exec %q child-%s %q %d > %q 2>&1", bin, mode, dir, start, logPath)
	if ulimitKB > 0 {
		sh = fmt.Sprintf("ulimit -v %d; ", ulimitKB) + sh
	}
	_ = os.Remove(filepath.Join(dir, doneFile))
	cmd := exec.Command("bash", "-c", sh)
	cmd.Env = append(os.Environ(), "GOTRACEBACK=all")
	if err := cmd.Start(); err != nil {
		return &death{Idx: start, Kind: "harness-start", Detail: err.Error()}, false
	}
	doneCh := make(chan error, 1)
	go func() { doneCh <- cmd.Wait() }()
	last, lastChange := -2, time.Now()
	tick := time.NewTicker(500 * time.Millisecond)
	defer tick.Stop()
	for {
		select {
		case err := <-doneCh:
			if _, e := os.Stat(filepath.Join(dir, doneFile)); e == nil && err == nil {
				return nil, true
			}
			idx := readMarker(filepath.Join(dir, markerFile))
			logb, _ := os.ReadFile(logPath)
			kind := "exit"
			ls := string(logb)
			switch {
			case strings.Contains(ls, "stack overflow") || strings.Contains(ls, "goroutine stack exceeds"):
				kind = "stack-overflow"
			case strings.Contains(ls, "out of memory") || strings.Contains(ls, "cannot allocate memory"):
				kind = "out-of-memory"
			case strings.Contains(ls, "fatal error: checkptr"):
				kind = "checkptr"
			case strings.Contains(ls, "panic:"):
				kind = "panic-unrecovered"
			case strings.Contains(ls, "fatal error"):
				kind = "fatal-error"
			}
			return &death{Idx: idx, Kind: kind, Detail: trunc(firstLines(ls, 12), 1500)}, false
		case <-tick.C:
			m := readMarker(filepath.Join(dir, markerFile))
			if m != last {
				last, lastChange = m, time.Now()
				continue
			}
			if time.Since(lastChange) > 30*time.Second {
				c0 := procCPUms(cmd.Process.Pid)
				time.Sleep(2 * time.Second)
				c1 := procCPUms(cmd.Process.Pid)
				kind := "hang-blocked"
				if c0 >= 0 && c1-c0 > 1200 {
					kind = "hang-busy"
				}
				_ = cmd.Process.Signal(syscall.SIGQUIT)
				select {
				case <-doneCh:
				case <-time.After(10 * time.Second):
					_ = cmd.Process.Kill()
					<-doneCh
				}
				logb, _ := os.ReadFile(logPath)
				return &death{Idx: m, Kind: kind, Detail: trunc(firstLines(string(logb), 40), 3000)}, false
			}
		}
	}
}

func firstLines(s string, n int) string {
	l := strings.Split(s, "\n")
	if len(l) > n {
		l = l[:n]
	}
	return strings.Join(l, "\n")
}

func main() {
	if len(os.Args) >= 4 && strings.HasPrefix(os.Args[1], "child-") {
		start, _ := strconv.Atoi(os.Args[3])
		if os.Args[1] == "child-batch" {
			childBatch(os.Args[2], start)
		} else {
			childSurvive(os.Args[2], start)
		}
		return
	}
	run := report.New("C07", "exploration")
	run.Rule("inputs = random bytes, every truncation of valid CRLs (DER+PEM), structure-aware TLV mutants (length-field forms 0x80..0x8F, huge/top-bit/unbacked lengths, tag swaps, deleted/duplicated/emptied nodes, nesting depth), broken PEM armour, hostile AKI/CRL-number/issuer values inside correctly signed CRLs; each input goes to a child process through (a) ReadCRL and (b) Repository.AddCRL in verify mode with a real chain, and a sample through a live CRLRevocationChecker on the first-use and refresh paths; oracle: no panic, no child death, TotalAlloc delta <= 4 MiB + c1 x size (c1 = 4 x max alloc/byte measured on the valid corpus of the same run), CPU <= 5 s per input, no stall; non-trivial = input class x symptom-free outcome kind (error/accepted) for inputs that actually reached the parser (size > 0); distinct = input descriptor")
	run.Assume("a child process per batch: a fatal runtime error is attributed to the input named in the marker file", "allocation measured as runtime.MemStats.TotalAlloc delta around the call in a single-goroutine child")
	scratch, cleanup := report.Scratch("C07")
	defer cleanup()
	rng := rand.New(rand.NewSource(run.Seed))
	root := pki.NewRoot(pki.CertOpts{CN: "C07 Root"})
	in := root.Issue(pki.CertOpts{CN: "C07 Issuing CA", IsCA: true})
	corp, validCRL := buildCorpus(run, rng, root, in)
	bin := os.Getenv("VERIF_ENGINE_BIN")
	if bin == "" {
		bin, _ = os.Executable()
	}
	raceBin := os.Getenv("VERIF_ENGINE_BIN_RACE")

	// split into batch directories
	const batchSize = 400
	type batch struct {
		dir    string
		inputs []input
	}
	var batches []*batch
	for i := 0; i < len(corp.inputs); i += batchSize {
		j := i + batchSize
		if j > len(corp.inputs) {
			j = len(corp.inputs)
		}
		b := &batch{dir: filepath.Join(scratch, fmt.Sprintf("batch%03d", len(batches))), inputs: corp.inputs[i:j]}
		_ = os.MkdirAll(b.dir, 0755)
		for _, inp := range b.inputs {
			_ = os.WriteFile(filepath.Join(b.dir, fmt.Sprintf("%06d.bin", inp.Idx)), corp.data[inp.Idx], 0644)
		}
		mb, _ := json.Marshal(b.inputs)
		_ = os.WriteFile(filepath.Join(b.dir, "manifest.json"), mb, 0644)
		_ = os.WriteFile(filepath.Join(b.dir, "root.der"), root.Cert.Raw, 0644)
		_ = os.WriteFile(filepath.Join(b.dir, "int.der"), in.Cert.Raw, 0644)
		batches = append(batches, b)
	}
	run.Set("inputs_generated", len(corp.inputs))
	run.Set("batches", len(batches))

	var mu sync.Mutex
	results := map[int]result{}
	var deaths []death
	jobs := make(chan *batch, len(batches))
	for _, b := range batches {
		jobs <- b
	}
	close(jobs)
	var wg sync.WaitGroup
	for w := 0; w < 14; w++ {
		wg.Add(1)
		go func() {
			defer wg.Done()
			for b := range jobs {
				start := b.inputs[0].Idx
				for {
					d, done := runChild(bin, "batch", b.dir, start, 4<<20, "marker", "done")
					if d != nil {
						mu.Lock()
						deaths = append(deaths, *d)
						mu.Unlock()
						if d.Idx < 0 || d.Kind == "harness-start" {
							break
						}
						start = d.Idx + 1
						if start > b.inputs[len(b.inputs)-1].Idx {
							break
						}
						continue
					}
					if done {
						break
					}
				}
				rs := readResults(filepath.Join(b.dir, "results.jsonl"))
				mu.Lock()
				for k, v := range rs {
					results[k] = v
				}
				mu.Unlock()
			}
		}()
	}
	wg.Wait()

	// allocation bound from the valid corpus of this run
	maxRatio := 0.0
	for _, inp := range corp.inputs {
		if !inp.Valid {
			continue
		}
		r, ok := results[inp.Idx]
		if !ok || r.Size == 0 {
			continue
		}
		for _, a := range []uint64{r.ReadAlloc, r.RepoAlloc} {
			if q := float64(a) / float64(r.Size); q > maxRatio {
				maxRatio = q
			}
		}
		if r.ReadErr != "" || r.ReadPanic != "" {
			run.Violation("valid."+symptom(r.ReadErr, r.ReadPanic), "valid corpus document not readable: "+inp.Desc+" "+r.ReadErr+r.ReadPanic, &report.Replay{Case: inp, Files: map[string][]byte{"input.bin": corp.data[inp.Idx]}})
		}
		if r.RepoErr != "" || r.RepoPanic != "" {
			run.Violation("valid.repo."+symptom(r.RepoErr, r.RepoPanic), "valid corpus document not accepted by the repository in verify mode: "+inp.Desc+" "+r.RepoErr+r.RepoPanic, &report.Replay{Case: inp, Files: map[string][]byte{"input.bin": corp.data[inp.Idx]}})
		}
	}
	c0 := float64(4 << 20)
	c1 := 4 * maxRatio
	run.Set("alloc_bound_c0_bytes", int64(c0))
	run.Set("alloc_bound_c1_per_byte", c1)
	run.Set("valid_corpus_max_alloc_per_byte", maxRatio)

	byIdx := map[int]input{}
	for _, inp := range corp.inputs {
		byIdx[inp.Idx] = inp
	}
	replay := func(inp input, extra any) *report.Replay {
		return &report.Replay{Case: map[string]any{"input": inp, "observed": extra}, Files: map[string][]byte{"input.bin": corp.data[inp.Idx]}}
	}
	for _, d := range deaths {
		inp, ok := byIdx[d.Idx]
		if !ok {
			run.Inconclusive("child died without attributable input: " + d.Kind + " " + trunc(d.Detail, 200))
			continue
		}
		if d.Kind == "hang-blocked" {
			run.Inconclusive("child stalled without burning CPU on " + inp.Desc)
			continue
		}
		run.Violation(inp.Class+".child-death:"+d.Kind, "child process died ("+d.Kind+") on "+inp.Desc+"\n"+d.Detail, replay(inp, d))
	}
	var maxAlloc uint64
	var maxAllocDesc string
	missing := 0
	for _, inp := range corp.inputs {
		r, ok := results[inp.Idx]
		if !ok {
			missing++
			continue
		}
		run.Eval(1)
		sym := false
		if r.ReadPanic != "" {
			run.Violation(inp.Class+".panic:"+strings.SplitN(r.ReadPanic, " | ", 2)[0], "ReadCRL panicked on "+inp.Desc+": "+r.ReadPanic, replay(inp, r))
			sym = true
		}
		if r.RepoPanic != "" {
			run.Violation(inp.Class+".repo-panic:"+strings.SplitN(r.RepoPanic, " | ", 2)[0], "AddCRL panicked on "+inp.Desc+": "+r.RepoPanic, replay(inp, r))
			sym = true
		}
		bound := c0 + c1*float64(r.Size)
		if !inp.Unbacked {
			// every declared length of this input is backed by data: the property does not bound what
			// the parser spends on data that is really there (e.g. RDNSequence.String() is quadratic
			// in the number of RDNs); only a sanity cap applies and the figure goes to the evidence.
			if float64(r.ReadAlloc) > bound || float64(r.RepoAlloc) > bound {
				run.Count("backed_inputs_above_linear_bound", 1)
				run.Distinct("backed_classes_above_linear_bound", inp.Class)
			}
			bound = 1 << 30
		}
		if float64(r.ReadAlloc) > bound {
			run.Violation(inp.Class+".alloc-bound", fmt.Sprintf("ReadCRL allocated %d bytes for a %d byte input (bound %.0f) on %s", r.ReadAlloc, r.Size, bound, inp.Desc), replay(inp, r))
			sym = true
		}
		if float64(r.RepoAlloc) > bound {
			run.Violation(inp.Class+".repo-alloc-bound", fmt.Sprintf("AddCRL allocated %d bytes for a %d byte input (bound %.0f) on %s", r.RepoAlloc, r.Size, bound, inp.Desc), replay(inp, r))
			sym = true
		}
		if r.ReadCPUms > 5000 || r.RepoCPUms > 5000 {
			run.Violation(inp.Class+".cpu-bound", fmt.Sprintf("%d/%d ms CPU on %s", r.ReadCPUms, r.RepoCPUms, inp.Desc), replay(inp, r))
			sym = true
		}
		if r.ReadAlloc > maxAlloc && !inp.Valid {
			maxAlloc, maxAllocDesc = r.ReadAlloc, inp.Desc
		}
		if !sym && r.Size > 0 {
			kind := "error"
			if r.ReadErr == "" {
				kind = "accepted"
			}
			run.NonTrivial(inp.Desc)
			run.Distinct("class_outcomes", inp.Class[:min(len(inp.Class), 40)]+"→"+kind)
			if r.ReadErr == "" && !inp.Valid {
				run.Count("hostile_inputs_read_without_error", 1)
			}
			if r.RepoErr == "" && !inp.Valid {
				run.Count("hostile_inputs_accepted_by_repository_verify", 1)
			}
		}
	}
	if missing > 0 {
		run.Set("inputs_without_result", missing)
	}
	run.Set("max_hostile_alloc_bytes", maxAlloc)
	run.Set("max_hostile_alloc_input", maxAllocDesc)
	run.Set("child_deaths", len(deaths))

	// ---- checkptr / race-runtime pass over a sample (race build of the same child)
	if raceBin != "" {
		sample := batches[:min(len(batches), map[bool]int{true: len(batches), false: 6}[run.Thorough()])]
		var rmu sync.Mutex
		rdeaths := 0
		var rwg sync.WaitGroup
		sem := make(chan struct{}, 8)
		for _, b := range sample {
			rwg.Add(1)
			sem <- struct{}{}
			go func(b *batch) {
				defer rwg.Done()
				defer func() { <-sem }()
				rdir := b.dir + "-race"
				_ = os.MkdirAll(rdir, 0755)
				_ = exec.Command("cp", "-r", b.dir+"/.", rdir).Run()
				_ = os.Remove(filepath.Join(rdir, "results.jsonl"))
				_ = os.Remove(filepath.Join(rdir, "marker"))
				d, _ := runChild(raceBin, "batch", rdir, b.inputs[0].Idx, 0, "marker", "done")
				if d != nil {
					rmu.Lock()
					rdeaths++
					rmu.Unlock()
					if inp, ok := byIdx[d.Idx]; ok && d.Kind != "hang-blocked" {
						run.Violation(inp.Class+".race-build-child-death:"+d.Kind, "race/checkptr build child died on "+inp.Desc+"\n"+d.Detail, replay(inp, d))
					}
				}
				rs := readResults(filepath.Join(rdir, "results.jsonl"))
				run.Count("race_build_inputs_run", int64(len(rs)))
				_ = os.RemoveAll(rdir)
			}(b)
		}
		rwg.Wait()
		run.Set("race_build_child_deaths", rdeaths)
	}

	// ---- survival scenario: live checker, hostile origin, first-use + refresh paths
	{
		sdir := filepath.Join(scratch, "survive")
		_ = os.MkdirAll(sdir, 0755)
		var pick []input
		perClass := map[string]int{}
		limit := 3
		if run.Thorough() {
			limit = 40
		}
		for _, inp := range corp.inputs {
			cls := inp.Class
			if perClass[cls] >= limit {
				continue
			}
			perClass[cls]++
			n := input{Idx: len(pick), Class: inp.Class, Desc: inp.Desc, Valid: inp.Valid}
			_ = os.WriteFile(filepath.Join(sdir, fmt.Sprintf("%06d.bin", n.Idx)), corp.data[inp.Idx], 0644)
			pick = append(pick, n)
		}
		mb, _ := json.Marshal(pick)
		_ = os.WriteFile(filepath.Join(sdir, "manifest.json"), mb, 0644)
		_ = os.WriteFile(filepath.Join(sdir, "root.der"), root.Cert.Raw, 0644)
		_ = os.WriteFile(filepath.Join(sdir, "int.der"), in.Cert.Raw, 0644)
		_ = os.WriteFile(filepath.Join(sdir, "valid.crl"), validCRL, 0644)
		kb, err := x509.MarshalECPrivateKey(in.Key.(*ecdsa.PrivateKey))
		if err != nil {
			panic(err)
		}
		_ = os.WriteFile(filepath.Join(sdir, "int.key"), kb, 0600)
		start := 0
		sdeaths := 0
		for start < len(pick) {
			d, done := runChild(bin, "survive", sdir, start, 0, "marker-survive", "done-survive")
			if done {
				break
			}
			if d == nil {
				break
			}
			sdeaths++
			if d.Idx < 0 || d.Idx >= len(pick) || d.Kind == "harness-start" {
				run.Inconclusive("survival child died without attributable input: " + d.Kind + " " + trunc(d.Detail, 300))
				break
			}
			inp := pick[d.Idx]
			if d.Kind == "hang-blocked" {
				run.Inconclusive("survival child stalled on " + inp.Desc)
			} else {
				run.Violation(inp.Class+".survival-child-death:"+d.Kind, "a live CRL checker process died ("+d.Kind+") after its origin served: "+inp.Desc+"\n"+d.Detail, &report.Replay{Case: map[string]any{"input": inp, "death": d}})
			}
			start = d.Idx + 1
		}
		lines := 0
		validLoadFailed := 0
		if b, err := os.ReadFile(filepath.Join(sdir, "survive.jsonl")); err == nil {
			for _, l := range bytes.Split(b, []byte("\n")) {
				if len(l) == 0 {
					continue
				}
				lines++
				var m map[string]any
				if json.Unmarshal(l, &m) == nil {
					if s, _ := m["valid_load_err"].(string); s != "" {
						validLoadFailed++
					}
				}
			}
		}
		run.Eval(lines)
		run.Set("survival_inputs_served_to_live_checker", lines)
		run.Set("survival_child_deaths", sdeaths)
		run.Set("survival_valid_loads_failed", validLoadFailed)
		if lines < len(pick)/2 {
			run.Inconclusive(fmt.Sprintf("survival scenario served only %d of %d inputs", lines, len(pick)))
		}
	}
	run.Finish(500)
}

func symptom(e, p string) string {
	if p != "" {
		return "panic:" + strings.SplitN(p, " | ", 2)[0]
	}
	return "error"
}
