// c15: refresh liveness (bounded restatement) — with update interval I every known location is
// fetched again within 3 I + 1 s while the validator runs, also after failed passes and
// independently of other validator instances in the process; a newly published acceptable CRL
// takes effect within that bound; configured CRLs are in force when Provision returns.
// Real ticker, real time, one-sided bounds, origin hit log as witness.
package main

import (
	"crypto/x509"
	"fmt"
	"github.com/gr33nbl00d/caddy-revocation-validator/config"
	repoocsp "github.com/gr33nbl00d/caddy-revocation-validator/ocsp"
	"golang.org/x/crypto/ocsp"
	"math/big"
	"math/rand"
	"os"
	"path/filepath"
	"runtime"
	"strings"
	"sync"
	"sync/atomic"
	"time"

	"verif/harness/lab/crlgen"
	"verif/harness/lab/gen"
	"verif/harness/lab/l2"
	"verif/harness/lab/origin"
	"verif/harness/lab/pki"
	"verif/harness/lab/report"
	"verif/harness/lab/sut"
	"verif/harness/lab/world"
)

type instSpec struct {
	Source  string // crl_urls | crl_files | cdp
	Fetch   string
	SigMode string
	Signer  string // resolvable | unknown
	FailK   int    // failed passes before the new version is published
	FailAs  string // http500 | garbage
	Backend string
	// FirstFails (CDP sources): the origin fails from the start, so the very first load attempt of
	// the location fails and the retries are first loads too
	FirstFails bool
	// SlowDownload: every download of the location takes this long (a big list on a slow link), and an
	// OCSP lookup is done in the same process first (other activity of the plugin must not matter)
	SlowDownload time.Duration
}

type setSpec struct {
	ID        int
	Interval  time.Duration
	Instances []instSpec
}

func (s setSpec) String() string {
	d := fmt.Sprintf("I=%v instances=%d:", s.Interval, len(s.Instances))
	for _, i := range s.Instances {
		ff := ""
		if i.FirstFails {
			ff = " failing-from-the-start"
		}
		if i.SlowDownload > 0 {
			ff += fmt.Sprintf(" download-takes-%v-after-an-ocsp-lookup", i.SlowDownload)
		}
		d += fmt.Sprintf(" [%s %s sig=%s/%s fail^%d(%s)%s %s]", i.Source, i.Fetch, i.SigMode, i.Signer, i.FailK, i.FailAs, ff, i.Backend)
	}
	return d
}

func main() {
	run := report.New("C15", "exploration")
	run.Rule("scenario set = 1..4 checker instances in one process (distinct work_dirs, started I/4 apart) with the real update ticker at interval I, each with one location from {crl_urls, crl_files, CDP active, CDP background}, signature mode/signer in {verify/resolvable, verify_log/unknown, none/unknown}, and an outcome history fail^k then a newly published acceptable CRL (k in {0,1,3}, failures = HTTP 500 or garbage; for CDP locations also failing from the start, so that the first load itself fails and is retried); plus one location whose every download takes 6 s in a process that also performed an OCSP lookup (bound + 2 x download time); the run lasts 12 I. Oracle (bounded progress): for every URL location every gap between the end of one fetch and the start of the next, and from the last fetch to the end of the run, is <= 3 I + 1 s; the first rejection of the newly listed serial arrives <= 3 I + 1 s after publication; a configured CRL's listed serial is rejected immediately after Provision returns. non-trivial = instance for which >= 3 fetches were observed (URL sources) and the new serial was seen rejected; distinct = set descriptor + instance index")
	run.Assume("real time with small intervals; bounds are one-sided and generous (3 I + 1 s against a nominal period of I); a lateness probe voids a set whose 5 ms timers fire more than 450 ms late", "slow failure kinds (refused: 2 s of loader retries per pass) are used in single-instance sets only, because all instances share one process-wide refresh mutex")
	scratch, _ := report.Scratch("C15")
	sut.QuietStderr(filepath.Join(scratch, "stderr.log"))
	rng := rand.New(rand.NewSource(run.Seed))
	intervals := []time.Duration{400 * time.Millisecond}
	if run.Thorough() {
		intervals = []time.Duration{200 * time.Millisecond, 400 * time.Millisecond, time.Second}
	}
	var sets []setSpec
	srcs := []struct{ s, f string }{{"crl_urls", "actively"}, {"crl_files", "actively"}, {"cdp", "actively"}, {"cdp", "background"}, {"crl_urls", "background"}}
	sigs := []struct{ m, s string }{{"verify", "resolvable"}, {"verify_log", "unknown"}, {"none", "unknown"}, {"", "resolvable"}}
	mk := func(i int) instSpec {
		src := srcs[i%len(srcs)]
		sg := sigs[(i/2)%len(sigs)]
		return instSpec{Source: src.s, Fetch: src.f, SigMode: sg.m, Signer: sg.s, FailK: []int{0, 1, 3}[i%3], FailAs: []string{"http500", "garbage"}[i%2], Backend: []string{"memory", "disk"}[(i/3)%2]}
	}
	n := 0
	for _, iv := range intervals {
		// single-instance sets covering every source x signature combination
		for a := 0; a < len(srcs); a++ {
			for b := 0; b < len(sigs); b++ {
				if !run.Thorough() && (a+b)%2 == 1 {
					continue
				}
				is := mk(n)
				is.Source, is.Fetch = srcs[a].s, srcs[a].f
				is.SigMode, is.Signer = sigs[b].m, sigs[b].s
				sets = append(sets, setSpec{ID: len(sets), Interval: iv, Instances: []instSpec{is}})
				n++
			}
		}
		// CDP locations whose first load fails (fail^k from the start), every signature combination
		for a := 2; a <= 3; a++ {
			for b := 0; b < len(sigs); b++ {
				is := mk(n)
				is.Source, is.Fetch = srcs[a].s, srcs[a].f
				is.SigMode, is.Signer = sigs[b].m, sigs[b].s
				is.FirstFails = true
				is.FailK = []int{1, 3}[(a+b)%2]
				sets = append(sets, setSpec{ID: len(sets), Interval: iv, Instances: []instSpec{is}})
				n++
			}
		}
		// a location whose download takes 6 s, in a process that also did an OCSP lookup
		if iv == intervals[0] {
			sets = append(sets, setSpec{ID: len(sets), Interval: iv, Instances: []instSpec{{Source: "crl_urls", Fetch: "actively", SigMode: "verify", Signer: "resolvable", FailAs: "http500", Backend: "memory", SlowDownload: 6 * time.Second}}})
		}
		// multi-instance sets
		for _, m := range []int{2, 3, 4, 2} {
			var ins []instSpec
			for j := 0; j < m; j++ {
				ins = append(ins, mk(n+j*7+rng.Intn(3)))
			}
			if ins[0].Source == "crl_files" {
				ins[0].Source = "crl_urls"
			}
			sets = append(sets, setSpec{ID: len(sets), Interval: iv, Instances: ins})
			n += m
		}
	}
	si, sn, isShard := report.Shard()
	if !isShard {
		run.RunShards(min(14, len(sets)), scratch)
		run.Set("scenario_sets", len(sets))
		run.Finish(8)
		return
	}
	for i, s := range sets {
		if i%sn != si {
			continue
		}
		runSet(run, s, scratch)
	}
	run.FinishShard()
}

type instState struct {
	spec       instSpec
	chk        *l2.Checker
	path       string
	file       string
	l0, l1     *big.Int
	cdp        []string
	provisionT time.Duration
	pubT       time.Duration // when the acceptable new version was published
	firstRevT  time.Duration // first time the new serial was seen rejected (-1 never)
	immediate  string        // result of the "in force when Provision returns" probe
	err        string
}

func runSet(run *report.Run, s setSpec, scratch string) {
	w := world.New(fmt.Sprintf("C15-%d", s.ID))
	defer w.Close()
	sibling := w.Root.Issue(pki.CertOpts{RawSubject: w.Int.Cert.RawSubject, IsCA: true})
	I := s.Interval
	bound := 3*I + time.Second
	total := 12 * I
	for _, is := range s.Instances {
		if is.SlowDownload > 0 {
			// a download in flight at publication has to finish, the next one fetches the new list
			bound += 2 * is.SlowDownload
			total += 4 * is.SlowDownload
		}
	}
	var lateMax atomic.Int64
	stopProbe := make(chan struct{})
	go func() {
		for {
			select {
			case <-stopProbe:
				return
			default:
			}
			t0 := time.Now()
			time.Sleep(5 * time.Millisecond)
			if l := int64(time.Since(t0) - 5*time.Millisecond); l > lateMax.Load() {
				lateMax.Store(l)
			}
		}
	}()
	rng := rand.New(rand.NewSource(int64(s.ID)*977 + run.Seed))
	build := func(is instSpec, entries []crlgen.Entry) []byte {
		sp := gen.SpecFor(w.Int, entries)
		signer := w.Int
		if is.Signer == "unknown" {
			signer = sibling
			sp.Exts = [][]byte{crlgen.AKIKeyID(sibling.Cert.SubjectKeyId), crlgen.CRLNumberExt(big.NewInt(1))}
		}
		return sp.Build(signer.Key).DER
	}
	states := make([]*instState, len(s.Instances))
	var wg sync.WaitGroup
	start := time.Now()
	now := func() time.Duration { return time.Since(start) }
	originOffset := w.CRL.Now() - now() // origin clock minus our clock
	for j, is := range s.Instances {
		st := &instState{spec: is, firstRevT: -1}
		states[j] = st
		wg.Add(1)
		go func(j int, st *instState) {
			defer wg.Done()
			is := st.spec
			time.Sleep(time.Duration(j) * I / 4)
			base := gen.Entries(rng, gen.Opts{N: 6, SerialWidth: 9})
			st.l0 = base[1].Serial
			st.l1 = gen.SerialOfWidth(rand.New(rand.NewSource(int64(s.ID*100+j))), 10, false)
			st.path = fmt.Sprintf("/i%d.crl", j)
			url := w.CRL.URL(st.path)
			v0 := build(is, base)
			v1 := build(is, append(append([]crlgen.Entry(nil), base...), crlgen.Entry{Serial: st.l1, Date: gen.BaseTime}))
			wd := filepath.Join(scratch, fmt.Sprintf("set%d-wd%d", s.ID, j))
			_ = os.MkdirAll(wd, 0755)
			defer os.RemoveAll(wd)
			opts := l2.Opts{WorkDir: wd, Storage: is.Backend, SigMode: is.SigMode, Fetch: is.Fetch, Interval: I}
			if is.Signer == "resolvable" {
				opts.Trusted = []*x509.Certificate{w.Int.Cert}
			}
			// in multi-instance sets the first instance has a slow origin (0.4 I per fetch), so that the
			// ticks of the others fall into its update pass
			slow := time.Duration(0)
			if j == 0 && len(s.Instances) > 1 {
				slow = I * 2 / 5
			}
			if is.SlowDownload > 0 {
				slow = is.SlowDownload
				// other activity of the plugin in this process: one OCSP lookup with a healthy responder
				oc := &repoocsp.OCSPRevocationChecker{}
				_ = oc.Provision(&config.OCSPConfig{DefaultCacheDurationParsed: 0, TrustedResponderCerts: []*x509.Certificate{}}, l2.DebugLogger())
				w.OCSP.Set("/ocsp", world.Responder(w.Int, nil, nil, func(*big.Int) world.OCSPStatus { return world.OCSPStatus{Status: ocsp.Good} }))
				oleaf := w.Leaf(pki.NextSerial(), nil, []string{w.OCSP.URL("/ocsp")})
				if _, err := oc.IsRevoked(oleaf[0], [][]*x509.Certificate{oleaf}); err != nil {
					st.err = "ocsp lookup before the scenario failed: " + err.Error()
					return
				}
				defer oc.Cleanup()
			}
			serve := func(body []byte) origin.Behaviour {
				b := origin.Good(body)
				b.Delay = slow
				return b
			}
			failing := origin.Garbage()
			if is.FailAs == "http500" {
				failing = origin.Status(500, []byte("<html>err</html>"))
			}
			w.CRL.Set(st.path, serve(v0))
			if is.FirstFails {
				w.CRL.Set(st.path, failing)
			}
			switch is.Source {
			case "crl_urls":
				opts.CRLUrls = []string{url}
			case "crl_files":
				st.file = filepath.Join(scratch, fmt.Sprintf("set%d-i%d.crlfile", s.ID, j))
				_ = os.WriteFile(st.file, v0, 0644)
				opts.CRLFiles = []string{st.file}
			case "cdp":
				st.cdp = []string{url}
			}
			leaf := func(serial *big.Int) []*x509.Certificate { return w.Leaf(serial, st.cdp, nil) }
			probe0 := leaf(st.l0) // issued before Provision so that nothing delays the first question
			// no waiting for the first update pass here: "in force by the time provisioning returns"
			chk, err := l2.StartNoWait(opts)
			if err != nil {
				st.err = "provision: " + err.Error()
				return
			}
			st.chk = chk
			st.provisionT = now()
			defer chk.Stop()
			// configured CRLs are in force when Provision returns
			if is.Source != "cdp" {
				rev, err := chk.C.IsRevoked(probe0[0], [][]*x509.Certificate{probe0})
				switch {
				case err != nil:
					st.immediate = "error: " + err.Error()
				case rev.Revoked:
					st.immediate = "rejected"
				default:
					st.immediate = "accepted"
				}
			} else {
				// make the location known (CDP): first handshake
				c := leaf(st.l0)
				_, _ = chk.C.IsRevoked(c[0], [][]*x509.Certificate{c})
			}
			// outcome history: fail^k then publish
			failAt := 3 * I
			time.Sleep(time.Until(start.Add(time.Duration(j)*I/4 + failAt)))
			if is.FailK > 0 {
				w.CRL.Set(st.path, failing)
				if st.file != "" {
					_ = os.WriteFile(st.file, []byte("garbage"), 0644)
				}
				time.Sleep(time.Duration(is.FailK) * I)
			}
			w.CRL.Set(st.path, serve(v1))
			if st.file != "" {
				_ = os.WriteFile(st.file+".tmp", v1, 0644)
				_ = os.Rename(st.file+".tmp", st.file)
			}
			st.pubT = now()
			probe := leaf(st.l1)
			for now() < total {
				rev, err := chk.C.IsRevoked(probe[0], [][]*x509.Certificate{probe})
				if err == nil && rev.Revoked && st.firstRevT < 0 {
					st.firstRevT = now()
				}
				time.Sleep(40 * time.Millisecond)
			}
		}(j, st)
	}
	// the instances stop by themselves when the run is over (their last step is Cleanup); an update
	// pass or a Cleanup that never returns must not end as a watchdog timeout of the whole check
	allDone := make(chan struct{})
	go func() { wg.Wait(); close(allDone) }()
	stalled := ""
	select {
	case <-allDone:
	case <-time.After(total + 60*time.Second):
		buf := make([]byte, 4<<20)
		n := runtime.Stack(buf, true)
		for _, g := range strings.Split(string(buf[:n]), "\n\n") {
			if strings.Contains(g, "caddy-revocation-validator/crl") && (strings.Contains(g, "updateCRLs") || strings.Contains(g, ").Cleanup(")) {
				if len(g) > 1500 {
					g = g[:1500]
				}
				stalled += strings.ReplaceAll(g, "\n", " | ") + " || "
			}
		}
		if stalled == "" {
			stalled = "(no goroutine inside an update pass or Cleanup found)"
		}
	}
	end := now()
	close(stopProbe)
	desc := s.String()
	if stalled != "" {
		is := s.Instances[0]
		run.Eval(1)
		run.Violation(fmt.Sprintf("%s.%s.sig-%s-%s.instances-%d.update-pass-or-cleanup-never-returned", is.Source, is.Fetch, modeName(is.SigMode), is.Signer, len(s.Instances)), fmt.Sprintf("%s: 60 s after the end of the run an update pass or Cleanup has still not returned: %s", desc, stalled), &report.Replay{Case: map[string]any{"set": desc}, Files: map[string][]byte{"goroutines.txt": []byte(stalled)}})
		return
	}
	if late := time.Duration(lateMax.Load()); late > 450*time.Millisecond {
		run.Inconclusive(fmt.Sprintf("timers up to %v late during %s", late, desc))
		return
	}
	hits := w.CRL.Hits()
	for j, st := range states {
		run.Eval(1)
		idesc := fmt.Sprintf("%s | instance %d", desc, j)
		is := st.spec
		keyBase := fmt.Sprintf("%s.%s.sig-%s-%s.instances-%d", is.Source, is.Fetch, modeName(is.SigMode), is.Signer, len(s.Instances))
		if is.FirstFails {
			keyBase += ".first-load-failed"
		}
		rp := &report.Replay{Case: map[string]any{"set": desc, "instance": j, "provision_s": st.provisionT.Seconds(), "publish_s": st.pubT.Seconds(), "first_rejection_s": st.firstRevT.Seconds(), "immediate": st.immediate}}
		if st.err != "" {
			run.Violation(keyBase+".provision-failed", idesc+": "+st.err, rp)
			continue
		}
		if is.Source != "cdp" && st.immediate != "rejected" {
			run.Violation(keyBase+".configured-crl-not-in-force-after-provision", idesc+": listed serial of the configured CRL right after Provision returned: "+st.immediate, rp)
			continue
		}
		nfetch := 0
		if is.Source != "crl_files" {
			var prevDone time.Duration = st.provisionT
			worst := time.Duration(0)
			var worstAt time.Duration
			for _, h := range hits {
				if h.Path != st.path {
					continue
				}
				recv, done := h.Recv-originOffset, h.Done-originOffset
				if recv < st.provisionT {
					prevDone = max(prevDone, done)
					continue
				}
				nfetch++
				if g := recv - prevDone; g > worst {
					worst, worstAt = g, recv
				}
				prevDone = done
			}
			if g := end - prevDone; g > worst {
				worst, worstAt = g, end
			}
			run.Count("fetches_observed", int64(nfetch))
			rp.Case.(map[string]any)["fetches"] = nfetch
			rp.Case.(map[string]any)["worst_gap_s"] = worst.Seconds()
			if worst > bound {
				cls := "no-refetch-within-bound"
				if nfetch == 0 {
					cls = "never-refetched"
				}
				run.Violation(keyBase+"."+cls, fmt.Sprintf("%s: location not fetched for %v (bound %v = 3 I + 1 s [+ 2 x download time]) ending at t=%v; %d fetches after provisioning in %v", idesc, worst.Round(time.Millisecond), bound, worstAt.Round(time.Millisecond), nfetch, end.Round(time.Millisecond)), rp)
				continue
			}
		}
		if st.pubT > 0 && end-st.pubT > bound+200*time.Millisecond {
			if st.firstRevT < 0 {
				run.Violation(keyBase+".new-crl-never-took-effect", fmt.Sprintf("%s: acceptable new CRL published at t=%v, its new serial was still accepted when the run ended at t=%v (bound %v)", idesc, st.pubT.Round(time.Millisecond), end.Round(time.Millisecond), bound), rp)
				continue
			}
			if d := st.firstRevT - st.pubT; d > bound {
				run.Violation(keyBase+".new-crl-took-effect-late", fmt.Sprintf("%s: new serial first rejected %v after publication (bound %v)", idesc, d.Round(time.Millisecond), bound), rp)
				continue
			}
		}
		if st.firstRevT >= 0 && (nfetch >= 3 || is.Source == "crl_files") {
			run.NonTrivial(idesc)
		}
		if j == 0 && s.ID%4 == 0 {
			run.Sample(map[string]any{"set": desc, "instance": j, "fetches_after_provision": nfetch, "publish_s": st.pubT.Seconds(), "first_rejection_after_publish_s": (st.firstRevT - st.pubT).Seconds(), "immediate": st.immediate})
		}
	}
}

func modeName(m string) string {
	if m == "" {
		return "unset"
	}
	return m
}
