// c06: streaming CRL reader vs whole-document reference decoder (differential monitor).
package main

import (
	"bytes"
	"crypto/x509"
	"crypto/x509/pkix"
	"encoding/hex"
	"fmt"
	"math/big"
	"math/rand"
	"os"
	"path/filepath"
	"reflect"
	"runtime/debug"
	"sync"
	"time"

	"github.com/gr33nbl00d/caddy-revocation-validator/core"
	"github.com/gr33nbl00d/caddy-revocation-validator/crl/crlreader"

	"verif/harness/lab/crlgen"
	"verif/harness/lab/gen"
	"verif/harness/lab/pki"
	"verif/harness/lab/report"
)

type rec struct {
	started  bool
	meta     crlreader.CRLMetaInfo
	entries  []pkix.RevokedCertificate
	ext      *crlreader.ExtendedCRLMetaInfo
	extCalls int
}

func (r *rec) StartUpdateCrl(m *crlreader.CRLMetaInfo) error {
	r.started = true
	r.meta = *m
	return nil
}
func (r *rec) InsertRevokedCertificate(e *crlreader.CRLEntry) error {
	r.entries = append(r.entries, *e.RevokedCertificate)
	return nil
}
func (r *rec) UpdateExtendedMetaInfo(i *crlreader.ExtendedCRLMetaInfo) error {
	r.ext = i
	r.extCalls++
	return nil
}
func (r *rec) UpdateSignatureCertificate(*core.CertificateChainEntry) error { return nil }

type docCase struct {
	Desc      string // canonical descriptor
	Class     string // input class for finding keys
	Spec      *crlgen.Spec
	Built     *crlgen.Built
	MustFail  bool // unimplemented critical extension / unknown version
	Encodings []string
}

type outcome struct {
	err      string
	panicked string
	rec      *rec
	res      *crlreader.CRLReadResult
}

func readOne(path string) (o outcome) {
	r := &rec{}
	o.rec = r
	defer func() {
		if p := recover(); p != nil {
			o.panicked = fmt.Sprintf("%v", p)
			_ = debug.Stack()
		}
	}()
	res, err := crlreader.StreamingCRLFileReader{}.ReadCRL(r, path)
	if err != nil {
		o.err = err.Error()
	}
	o.res = res
	return
}

func encode(b *crlgen.Built, enc string) []byte {
	switch enc {
	case "pem-lf":
		return crlgen.PEM(b.DER, "\n", true)
	case "pem-crlf":
		return crlgen.PEM(b.DER, "\r\n", true)
	case "pem-lf-nofinal":
		return crlgen.PEM(b.DER, "\n", false)
	}
	return b.DER
}

// compare returns "" when the streaming observation equals the reference.
func compare(o outcome, ref *crlgen.Ref) string {
	r := o.rec
	if !r.started {
		return "StartUpdateCrl never called"
	}
	if !reflect.DeepEqual(r.meta.Issuer, ref.Issuer) {
		return "issuer differs"
	}
	if o.res.Issuer == nil || !reflect.DeepEqual(*o.res.Issuer, ref.Issuer) {
		return "result issuer differs"
	}
	if !r.meta.ThisUpdate.Equal(ref.ThisUpdate) {
		return fmt.Sprintf("thisUpdate %v != %v", r.meta.ThisUpdate, ref.ThisUpdate)
	}
	if ref.NextUpdate.IsZero() != r.meta.NextUpdate.IsZero() || (!ref.NextUpdate.IsZero() && !r.meta.NextUpdate.Equal(ref.NextUpdate)) {
		return fmt.Sprintf("nextUpdate %v != %v", r.meta.NextUpdate, ref.NextUpdate)
	}
	if len(r.entries) != len(ref.Entries) {
		return fmt.Sprintf("entry count %d != %d", len(r.entries), len(ref.Entries))
	}
	for i := range ref.Entries {
		a, b := r.entries[i], ref.Entries[i]
		if a.SerialNumber == nil || a.SerialNumber.Cmp(b.SerialNumber) != 0 {
			return fmt.Sprintf("entry %d serial differs", i)
		}
		if !a.RevocationTime.Equal(b.RevocationTime) {
			return fmt.Sprintf("entry %d date differs", i)
		}
		if len(a.Extensions) != len(b.Extensions) {
			return fmt.Sprintf("entry %d extension count differs", i)
		}
		for j := range b.Extensions {
			if !a.Extensions[j].Id.Equal(b.Extensions[j].Id) || a.Extensions[j].Critical != b.Extensions[j].Critical || !bytes.Equal(a.Extensions[j].Value, b.Extensions[j].Value) {
				return fmt.Sprintf("entry %d extension %d differs", i, j)
			}
		}
	}
	if r.extCalls != 1 {
		return fmt.Sprintf("UpdateExtendedMetaInfo called %d times", r.extCalls)
	}
	if (ref.CRLNumber == nil) != (r.ext.CRLNumber == nil) || (ref.CRLNumber != nil && ref.CRLNumber.Cmp(r.ext.CRLNumber) != 0) {
		return fmt.Sprintf("crl number %v != %v", r.ext.CRLNumber, ref.CRLNumber)
	}
	var gotExts []pkix.Extension
	if o.res.CRLExtensions != nil {
		gotExts = *o.res.CRLExtensions
	}
	if len(gotExts) != len(ref.Extensions) {
		return fmt.Sprintf("crlExtensions count %d != %d", len(gotExts), len(ref.Extensions))
	}
	for j := range ref.Extensions {
		if !gotExts[j].Id.Equal(ref.Extensions[j].Id) || gotExts[j].Critical != ref.Extensions[j].Critical || !bytes.Equal(gotExts[j].Value, ref.Extensions[j].Value) {
			return fmt.Sprintf("crlExtension %d differs", j)
		}
	}
	if o.res.Signature == nil || !bytes.Equal(o.res.Signature.Bytes, ref.Sig) || o.res.Signature.BitLength != ref.SigBits {
		return "signature bits differ"
	}
	h, ok := crlgen.HashForOID(ref.OuterOID)
	if !ok {
		return "harness: unsupported oid in positive case"
	}
	if !bytes.Equal(o.res.CalculatedSignature, ref.Digest(h)) {
		return "digest != H(tbsCertList) got " + hex.EncodeToString(o.res.CalculatedSignature)
	}
	if o.res.HashAndVerifyStrategy == nil || o.res.HashAndVerifyStrategy.HashStrategy != h {
		return "declared hash differs"
	}
	return ""
}

func straddles(l crlgen.Layout, derLen int) int {
	n := 0
	check := func(off, hdr int) {
		if off < 0 {
			return
		}
		if off/4096 != (off+hdr-1)/4096 || off%4096 == 0 {
			n++
		}
	}
	for _, e := range l.EntryStarts {
		check(e, 4)
	}
	check(l.RevokedStart, 4)
	check(l.ExtsStart, 4)
	check(l.SigAlgStart, 2)
	check(l.SigStart, 4)
	check(l.TBSEnd, 1)
	return n
}

func main() {
	run := report.New("C06", "exploration")
	run.Rule("cases = generated CRLs (entry count, serial width, date types, entry/crl extensions, version, issuer shape, algorithm, filler moving element boundaries over buffer windows) x encodings {DER, PEM-LF, PEM-CRLF}; oracle = field-by-field equality with encoding/asn1 whole-document decode + digest==H(raw tbsCertList); distinct = canonical descriptor; non-trivial = reference yielded >=1 entry or extension (boundary cases additionally counted in header_straddles)")
	run.Assume("encoding/asn1 and crypto hashes of the Go standard library are the trusted reference", "profile: update times UTCTime < 2050, 64-column PEM, single structures <= 80 KiB")
	scratch, cleanup := report.Scratch("C06")
	defer cleanup()
	rng := rand.New(rand.NewSource(run.Seed))

	// signer pool
	ecCA := pki.NewRoot(pki.CertOpts{CN: "C06 EC CA"})
	ec384 := pki.NewRoot(pki.CertOpts{CN: "C06 EC384 CA", Key: pki.ECKey("P384")})
	rsaCA := pki.NewRoot(pki.CertOpts{CN: "C06 RSA CA", Key: pki.RSAKey(0)})
	names := gen.NameShapes()

	var cases []docCase
	add := func(c docCase) { cases = append(cases, c) }
	allEnc := []string{"der", "pem-lf", "pem-crlf"}

	mk := func(ca *pki.CA, o gen.Opts) *crlgen.Spec {
		s := gen.SpecFor(ca, gen.Entries(rng, o))
		if o.NoCrlExts {
			s.Exts = nil
		}
		if o.NoNext {
			s.NoNextUpdate = true
		}
		if o.V1 {
			s.Version = -1
			s.Exts = nil
		}
		return s
	}

	// (1) entry-count sweep
	counts := []int{}
	for n := 0; n <= 40; n++ {
		counts = append(counts, n)
	}
	counts = append(counts, 127, 128, 255, 256, 1000, 3000)
	if run.Thorough() {
		counts = append(counts, 65535, 65536)
	}
	for _, n := range counts {
		for _, em := range []int{0, 1, 2, 4} {
			if n > 300 && em != 4 && em != 0 {
				continue
			}
			s := mk(ecCA, gen.Opts{N: n, Exts: em, GenTimeMix: true})
			add(docCase{Desc: fmt.Sprintf("count n=%d ext=%d v2", n, em), Class: "v2.crlExtensions", Spec: s, Encodings: allEnc})
		}
		// without crlExtensions (v2) and v1
		if n <= 40 || n == 256 {
			s := mk(ecCA, gen.Opts{N: n, Exts: 1, NoCrlExts: true})
			add(docCase{Desc: fmt.Sprintf("count n=%d v2-noexts", n), Class: classNoExt(n), Spec: s, Encodings: allEnc})
			s = mk(ecCA, gen.Opts{N: n, Exts: 0, V1: true, NoNext: n%2 == 1})
			add(docCase{Desc: fmt.Sprintf("count n=%d v1", n), Class: classNoExt(n), Spec: s, Encodings: allEnc})
		}
	}
	// (2) serial widths 1..20 in both sign-bit forms, and the 20-octet value with the top bit set (21 content octets)
	for w := 1; w <= 21; w++ {
		for _, hi := range []bool{false, true} {
			if w == 21 && !hi {
				continue // 21 content octets only for a 20-octet value with the top bit set
			}
			var es []crlgen.Entry
			for k := 0; k < 5; k++ {
				es = append(es, crlgen.Entry{Serial: gen.SerialOfWidth(rng, w, hi), Date: gen.BaseTime.Add(-time.Duration(k) * time.Hour), GenTime: k%2 == 1})
			}
			s := gen.SpecFor(ecCA, es)
			add(docCase{Desc: fmt.Sprintf("serial width=%d hi=%v", w, hi), Class: "v2.crlExtensions", Spec: s, Encodings: allEnc})
		}
	}
	// (3) algorithms x issuer shapes
	for _, ca := range []*pki.CA{ecCA, ec384, rsaCA} {
		for _, a := range gen.AlgsForKey(ca.Key) {
			for nm, raw := range names {
				if ca != ecCA && nm != "c-o-cn" && nm != "multi-valued" {
					continue
				}
				s := mk(ca, gen.Opts{N: 3 + rng.Intn(5), Exts: 4})
				s.Alg = a
				s.IssuerRaw = raw
				add(docCase{Desc: fmt.Sprintf("alg=%s issuer=%s", a.Name, nm), Class: "v2.crlExtensions", Spec: s, Encodings: allEnc})
			}
		}
	}
	// (4) optional fields and extension variety
	for i, exts := range [][][]byte{
		{crlgen.CRLNumberExt(big.NewInt(0))},
		{crlgen.CRLNumberExt(new(big.Int).Lsh(big.NewInt(1), 159))},
		{crlgen.CRLNumberExt(big.NewInt(255))},
		{crlgen.AKIKeyID(ecCA.Cert.SubjectKeyId)},
		{crlgen.AKIIssuerSerial(nil, ecCA.Cert.RawIssuer, ecCA.Cert.SerialNumber)},
		{crlgen.AKIIssuerSerial(ecCA.Cert.SubjectKeyId, ecCA.Cert.RawIssuer, ecCA.Cert.SerialNumber), crlgen.CRLNumberExt(big.NewInt(1234567))},
		{crlgen.IDPExt(false), crlgen.CRLNumberExt(big.NewInt(5))},
		{crlgen.FillerExt(200), crlgen.AKIKeyID(ecCA.Cert.SubjectKeyId), crlgen.FillerExt(60000)},
		{},
	} {
		for _, nn := range []bool{false, true} {
			s := mk(ecCA, gen.Opts{N: 4, Exts: 4, NoNext: nn})
			s.Exts = exts
			if exts == nil {
				s.Exts = [][]byte{}
			}
			add(docCase{Desc: fmt.Sprintf("crlexts variant=%d nonext=%v", i, nn), Class: "v2.crlExtensions", Spec: s, Encodings: allEnc})
		}
	}
	// (5) must-fail documents
	for i, exts := range [][][]byte{
		{crlgen.UnknownCriticalExt()},
		{crlgen.CRLNumberExt(big.NewInt(3)), crlgen.DeltaIndicatorExt()},
		{crlgen.IDPExt(true)},
		{crlgen.AKIKeyID(ecCA.Cert.SubjectKeyId), crlgen.UnknownCriticalExt(), crlgen.CRLNumberExt(big.NewInt(3))},
	} {
		for _, n := range []int{0, 1, 10} {
			s := mk(ecCA, gen.Opts{N: n, Exts: 1})
			s.Exts = exts
			add(docCase{Desc: fmt.Sprintf("critical-ext variant=%d n=%d", i, n), Class: "critical-ext", Spec: s, MustFail: true, Encodings: allEnc})
		}
	}
	for _, v := range []int{2, 3, 9, 127} {
		s := mk(ecCA, gen.Opts{N: 2, Exts: 1})
		s.Version = v
		add(docCase{Desc: fmt.Sprintf("version field=%d", v), Class: "unknown-version", Spec: s, MustFail: true, Encodings: allEnc})
	}
	// (6) boundary sweep: a filler in the first entry moves every later boundary
	var deltas []int
	if run.Thorough() {
		for f := 20; f < 20+4200; f++ {
			deltas = append(deltas, f)
		}
	} else {
		// neighbourhoods of every place where some later header crosses a 4096 boundary + seeded sample
		for f := 20; f < 20+4200; f += 9 {
			deltas = append(deltas, f)
		}
		for i := 0; i < 150; i++ {
			deltas = append(deltas, 20+rng.Intn(4200))
		}
	}
	baseEntries := gen.Entries(rng, gen.Opts{N: 70, Exts: 4, GenTimeMix: true})
	for _, f := range deltas {
		es := append([]crlgen.Entry(nil), baseEntries...)
		es[0].Exts = [][]byte{crlgen.FillerExt(f)}
		s := gen.SpecFor(ecCA, es)
		add(docCase{Desc: fmt.Sprintf("boundary filler=%d", f), Class: "v2.crlExtensions", Spec: s, Encodings: allEnc})
	}
	// boundary sweep on the crlExtensions / signature side
	for f := 20; f < 20+4200; f += map[bool]int{true: 1, false: 13}[run.Thorough()] {
		es := append([]crlgen.Entry(nil), baseEntries[:10]...)
		s := gen.SpecFor(rsaCA, es)
		s.Exts = [][]byte{crlgen.FillerExt(f), crlgen.CRLNumberExt(big.NewInt(int64(f)))}
		add(docCase{Desc: fmt.Sprintf("boundary ext-filler=%d", f), Class: "v2.crlExtensions", Spec: s, Encodings: allEnc})
	}
	// PEM line-window sweep: header sizes shifted byte by byte over 0..47
	for d := 0; d < 48; d++ {
		es := append([]crlgen.Entry(nil), baseEntries[:6]...)
		es[0].Exts = [][]byte{crlgen.FillerExt(20 + d)}
		s := gen.SpecFor(ecCA, es)
		add(docCase{Desc: fmt.Sprintf("pem-line delta=%d", d), Class: "v2.crlExtensions", Spec: s, Encodings: []string{"der", "pem-lf", "pem-crlf", "pem-lf-nofinal"}})
	}
	// big entries (2- and 3-byte entry lengths)
	for _, f := range []int{100, 127, 128, 255, 256, 300, 4090, 4096, 4100, 9000, 65000, 70000} {
		es := append([]crlgen.Entry(nil), baseEntries[:3]...)
		es[1].Exts = [][]byte{crlgen.FillerExt(f)}
		s := gen.SpecFor(ecCA, es)
		add(docCase{Desc: fmt.Sprintf("big-entry filler=%d", f), Class: "v2.crlExtensions", Spec: s, Encodings: allEnc})
	}
	if run.Thorough() {
		// one >= 16 MiB document: 4-byte length class
		s := mk(ecCA, gen.Opts{N: 780000, SerialWidth: 12})
		add(docCase{Desc: "huge n=780000 (4-byte lengths)", Class: "v2.crlExtensions", Spec: s, Encodings: []string{"der", "pem-lf"}})
	}

	// ---- execute
	var mu sync.Mutex
	jobs := make(chan int, len(cases))
	for i := range cases {
		jobs <- i
	}
	close(jobs)
	var wg sync.WaitGroup
	caFor := func(s *crlgen.Spec) *pki.CA {
		switch s.Alg.Family {
		case "rsa":
			return rsaCA
		}
		return ecCA
	}
	sizeClasses := map[int]bool{}
	for w := 0; w < 12; w++ {
		wg.Add(1)
		go func(w int) {
			defer wg.Done()
			for i := range jobs {
				c := &cases[i]
				ca := caFor(c.Spec)
				b := c.Spec.Build(ca.Key)
				c.Built = b
				ref, err := crlgen.Decode(b.DER)
				if err != nil {
					fmt.Printf("HARNESS-BUG: reference decoder rejects generated document %q: %v\n", c.Desc, err)
					os.Exit(3)
				}
				if len(ref.Entries) != len(c.Spec.Entries) || !bytes.Equal(ref.RawTBS, b.TBS) {
					fmt.Printf("HARNESS-BUG: reference decode disagrees with generator for %q\n", c.Desc)
					os.Exit(3)
				}
				// second reference where applicable
				if c.Spec.Version == 1 && c.Spec.Exts != nil && !c.MustFail && len(c.Spec.Entries) <= 300 {
					if rl, err := x509.ParseRevocationList(b.DER); err == nil {
						if len(rl.RevokedCertificateEntries) != len(ref.Entries) || !bytes.Equal(rl.RawIssuer, ref.IssuerRaw) {
							fmt.Printf("HARNESS-BUG: the two reference decoders disagree for %q\n", c.Desc)
							os.Exit(3)
						}
						run.Count("second_reference_agreed", 1)
					}
				}
				mu.Lock()
				sizeClasses[lenClass(len(b.DER))] = true
				mu.Unlock()
				var first *outcome
				for _, enc := range c.Encodings {
					path := filepath.Join(scratch, fmt.Sprintf("w%d.crl", w))
					data := encode(b, enc)
					if err := os.WriteFile(path, data, 0600); err != nil {
						panic(err)
					}
					o := readOne(path)
					run.Eval(1)
					desc := c.Desc + " enc=" + enc
					rp := &report.Replay{Case: map[string]any{"desc": desc, "error": o.err, "panic": o.panicked}, Files: map[string][]byte{"input.crl": data}}
					if len(data) > 2<<20 {
						rp.Files = nil
					}
					if c.MustFail {
						if o.err == "" && o.panicked == "" {
							run.Violation(c.Class+".accepted", "document that must be rejected was read without error: "+desc, rp)
						} else {
							run.NonTrivial(desc)
						}
						continue
					}
					switch {
					case o.panicked != "":
						run.Violation(c.Class+".panic", "panic "+o.panicked+" on "+desc, rp)
						continue
					case o.err != "":
						run.Violation(c.Class+".error", "well-formed CRL rejected: "+o.err+" on "+desc, rp)
						continue
					}
					if d := compare(o, ref); d != "" {
						run.Violation(c.Class+".disagree", d+" on "+desc, rp)
						continue
					}
					if first == nil {
						oo := o
						first = &oo
					}
					if len(ref.Entries) > 0 || len(ref.Extensions) > 0 {
						run.NonTrivial(desc)
					}
					run.Count("documents_agreed", 1)
					run.Count("entries_compared", int64(len(ref.Entries)))
				}
				run.Count("header_straddles", int64(straddles(b.Layout, len(b.DER))))
				if i%97 == 0 {
					run.Sample(map[string]any{"desc": c.Desc, "der_len": len(b.DER), "entries": len(c.Spec.Entries), "alg": c.Spec.Alg.Name, "der_prefix_hex": hex.EncodeToString(b.DER[:min(24, len(b.DER))])})
				}
				c.Built = nil
				c.Spec = nil
			}
		}(w)
	}
	wg.Wait()
	var sc []int
	for k := range sizeClasses {
		sc = append(sc, k)
	}
	run.Set("outer_length_size_classes_seen", sc)
	run.Set("cases_generated", len(cases))
	run.Finish(100)
}

func classNoExt(n int) string {
	if n == 0 {
		return "no-crlExtensions.empty"
	}
	return "no-crlExtensions.entries"
}

func lenClass(n int) int {
	switch {
	case n < 128:
		return 0
	case n < 256:
		return 1
	case n < 65536:
		return 2
	case n < 1<<24:
		return 3
	}
	return 4
}
