// c18: both storage backends against one abstract map (model-based differential monitor).
package main

import (
	"crypto/x509/pkix"
	"encoding/asn1"
	"encoding/hex"
	"fmt"
	"math/big"
	"math/rand"
	"os"
	"path/filepath"
	"strings"
	"sync"
	"time"

	"github.com/gr33nbl00d/caddy-revocation-validator/core"
	"github.com/gr33nbl00d/caddy-revocation-validator/crl/crlreader"
	"github.com/gr33nbl00d/caddy-revocation-validator/crl/crlstore"
	"go.uber.org/zap"

	"verif/harness/lab/gen"
	"verif/harness/lab/l2"
	"verif/harness/lab/pki"
	"verif/harness/lab/report"
)

// ---- abstract model

type mEntry struct {
	serial string
	date   time.Time
	exts   string
}

type model struct {
	entries map[string]mEntry // issuer.String()|serial
	meta    *crlreader.CRLMetaInfo
	ext     *crlreader.ExtendedCRLMetaInfo
	extSet  bool
	signer  []byte
	locs    *core.CRLLocations
}

func newModel() *model { return &model{entries: map[string]mEntry{}} }

func extsString(es []pkix.Extension) string {
	var b strings.Builder
	for _, e := range es {
		fmt.Fprintf(&b, "%s/%v/%s;", e.Id.String(), e.Critical, hex.EncodeToString(e.Value))
	}
	return b.String()
}

// ---- values

type values struct {
	issuers []pkix.RDNSequence
	entries []pkix.RevokedCertificate
	metas   []crlreader.CRLMetaInfo
	exts    []crlreader.ExtendedCRLMetaInfo
	signers []*core.CertificateChainEntry
	locs    []core.CRLLocations
}

func mustName(raw []byte) pkix.RDNSequence {
	var n pkix.RDNSequence
	if _, err := asn1.Unmarshal(raw, &n); err != nil {
		panic(err)
	}
	return n
}

func buildValues(rng *rand.Rand) *values {
	v := &values{}
	names := gen.NameShapes()
	for _, k := range []string{"cn-utf8", "c-o-cn", "multi-valued", "non-ascii", "underscore-1", "special-chars"} {
		v.issuers = append(v.issuers, mustName(names[k]))
	}
	oid := asn1.ObjectIdentifier{2, 5, 29, 21}
	oid2 := asn1.ObjectIdentifier{1, 3, 6, 1, 4, 1, 55555, 1}
	t0 := time.Date(2023, 3, 4, 5, 6, 7, 0, time.UTC)
	v.entries = []pkix.RevokedCertificate{
		{SerialNumber: big.NewInt(1), RevocationTime: t0},
		{SerialNumber: big.NewInt(2), RevocationTime: t0.Add(time.Hour), Extensions: []pkix.Extension{{Id: oid, Value: []byte{0x0a, 1, 1}}}},
		{SerialNumber: gen.SerialOfWidth(rng, 20, false), RevocationTime: time.Date(2051, 1, 1, 0, 0, 0, 0, time.UTC)},
		{SerialNumber: gen.SerialOfWidth(rng, 20, true), RevocationTime: t0, Extensions: []pkix.Extension{{Id: oid, Critical: true, Value: []byte{0x0a, 1, 2}}, {Id: oid2, Value: make([]byte, 300)}}},
		{SerialNumber: big.NewInt(-5), RevocationTime: t0},
		{SerialNumber: big.NewInt(5), RevocationTime: t0.Add(time.Minute)},
		{SerialNumber: big.NewInt(-256), RevocationTime: t0},
		{SerialNumber: big.NewInt(0), RevocationTime: t0},
		{SerialNumber: new(big.Int).Lsh(big.NewInt(1), 159), RevocationTime: time.Date(1999, 12, 31, 23, 59, 59, 0, time.UTC)},
		{SerialNumber: big.NewInt(255), RevocationTime: t0},
		{SerialNumber: big.NewInt(256), RevocationTime: t0},
		// the pairs of entries 0 and 1 again with another date and other extensions: inserting a pair
		// a second time replaces the stored entry
		{SerialNumber: big.NewInt(1), RevocationTime: t0.Add(48 * time.Hour), Extensions: []pkix.Extension{{Id: oid, Value: []byte{0x0a, 1, 4}}}},
		{SerialNumber: big.NewInt(2), RevocationTime: t0.Add(-time.Hour)},
	}
	v.metas = []crlreader.CRLMetaInfo{
		{Issuer: v.issuers[0], ThisUpdate: t0, NextUpdate: t0.Add(24 * time.Hour)},
		{Issuer: v.issuers[1], ThisUpdate: t0.Add(time.Minute)},
		{Issuer: v.issuers[3], ThisUpdate: time.Date(2049, 12, 31, 23, 59, 59, 0, time.UTC), NextUpdate: time.Date(2049, 12, 31, 23, 59, 59, 0, time.UTC)},
	}
	v.exts = []crlreader.ExtendedCRLMetaInfo{
		{CRLNumber: nil},
		{CRLNumber: big.NewInt(0)},
		{CRLNumber: big.NewInt(77)},
		{CRLNumber: new(big.Int).Lsh(big.NewInt(1), 159)},
	}
	for i := 0; i < 2; i++ {
		ca := pki.NewRoot(pki.CertOpts{CN: fmt.Sprintf("C18 signer %d", i)})
		v.signers = append(v.signers, &core.CertificateChainEntry{RawCertificate: ca.Cert.Raw, Certificate: ca.Cert})
	}
	v.locs = []core.CRLLocations{
		{CRLUrl: "http://example.org/a.crl"},
		{CRLFile: "/some/päth/ünïcode.crl"},
		{CRLDistributionPoints: []string{"http://a/1", "ldap://b/2", "http://c/x?y=z&ü=1"}},
		{CRLDistributionPoints: []string{}},
	}
	return v
}

// ---- operations

type op struct {
	Kind string // start insert ext signer locs replace reopen
	A    int    // value index
	B    int    // issuer index for insert
	Sub  []op   // for replace: the sequence that builds the other store
}

func (o op) String() string {
	if o.Kind == "replace" {
		var s []string
		for _, x := range o.Sub {
			s = append(s, x.String())
		}
		return "replace[" + strings.Join(s, ",") + "]"
	}
	if o.Kind == "insert" {
		return fmt.Sprintf("insert(e%d,i%d)", o.A, o.B)
	}
	if o.Kind == "reopen" {
		return "reopen"
	}
	return fmt.Sprintf("%s(%d)", o.Kind, o.A)
}

type triple struct {
	mem   crlstore.CRLStore
	disk  crlstore.CRLStore
	mod   *model
	ident string
}

type env struct {
	v     *values
	memF  crlstore.Factory
	diskF crlstore.Factory
	n     int
}

func (e *env) newTriple(temp bool) (*triple, error) {
	e.n++
	id := fmt.Sprintf("store%d", e.n)
	m, err := e.memF.CreateStore(id, temp)
	if err != nil {
		return nil, err
	}
	d, err := e.diskF.CreateStore(id, temp)
	if err != nil {
		return nil, err
	}
	return &triple{mem: m, disk: d, mod: newModel(), ident: id}, nil
}

func errs(a, b error) string {
	if (a == nil) != (b == nil) {
		return fmt.Sprintf("memory err=%v disk err=%v", a, b)
	}
	return ""
}

// apply executes one op on both stores and the model; returns a disagreement about the op's own result.
func (e *env) apply(t *triple, o op) string {
	v := e.v
	switch o.Kind {
	case "start":
		m := v.metas[o.A]
		if d := errs(t.mem.StartUpdateCrl(&m), t.disk.StartUpdateCrl(&m)); d != "" {
			return d
		}
		mm := m
		t.mod.meta = &mm
	case "insert":
		iss := v.issuers[o.B]
		ent := v.entries[o.A]
		ce := &crlreader.CRLEntry{Issuer: &iss, RevokedCertificate: &ent}
		ea, eb := t.mem.InsertRevokedCert(ce), t.disk.InsertRevokedCert(ce)
		if d := errs(ea, eb); d != "" {
			return d
		}
		if ea == nil {
			t.mod.entries[iss.String()+"|"+ent.SerialNumber.String()] = mEntry{serial: ent.SerialNumber.String(), date: ent.RevocationTime, exts: extsString(ent.Extensions)}
		}
	case "ext":
		x := v.exts[o.A]
		if d := errs(t.mem.UpdateExtendedMetaInfo(&x), t.disk.UpdateExtendedMetaInfo(&x)); d != "" {
			return d
		}
		xx := x
		t.mod.ext = &xx
		t.mod.extSet = true
	case "signer":
		s := v.signers[o.A]
		if d := errs(t.mem.UpdateSignatureCertificate(s), t.disk.UpdateSignatureCertificate(s)); d != "" {
			return d
		}
		t.mod.signer = s.RawCertificate
	case "locs":
		l := v.locs[o.A]
		if d := errs(t.mem.UpdateCRLLocations(&l), t.disk.UpdateCRLLocations(&l)); d != "" {
			return d
		}
		ll := l
		t.mod.locs = &ll
	case "replace":
		other, err := e.newTripleLike(t)
		if err != nil {
			return "harness: " + err.Error()
		}
		for _, so := range o.Sub {
			if d := e.apply(other, so); d != "" {
				return "in nested sequence: " + d
			}
		}
		ea, eb := t.mem.Update(other.mem), t.disk.Update(other.disk)
		if d := errs(ea, eb); d != "" {
			return d
		}
		if ea != nil {
			return "replace failed on both: " + ea.Error()
		}
		t.mod = other.mod
	case "reopen":
		t.disk.Close()
		d, err := e.diskF.CreateStore(t.ident, false)
		if err != nil {
			return "reopen failed: " + err.Error()
		}
		t.disk = d
	}
	return ""
}

func (e *env) newTripleLike(t *triple) (*triple, error) {
	e.n++
	m, err := e.memF.CreateStore(t.ident, true)
	if err != nil {
		return nil, err
	}
	d, err := e.diskF.CreateStore(t.ident, true)
	if err != nil {
		return nil, err
	}
	return &triple{mem: m, disk: d, mod: newModel(), ident: t.ident}, nil
}

func obsStore(s crlstore.CRLStore, v *values) string {
	var b strings.Builder
	for ii, iss := range v.issuers {
		for ei, ent := range v.entries {
			i := iss
			st, err := s.GetCertRevocationStatus(&i, ent.SerialNumber)
			if err != nil {
				fmt.Fprintf(&b, "L%d.%d=ERR;", ii, ei)
				continue
			}
			if st.Revoked {
				rc := st.CRLRevokedCertEntry
				if rc == nil {
					fmt.Fprintf(&b, "L%d.%d=revoked-without-entry;", ii, ei)
					continue
				}
				fmt.Fprintf(&b, "L%d.%d=%s@%d[%s];", ii, ei, rc.SerialNumber.String(), rc.RevocationTime.Unix(), extsString(rc.Extensions))
			}
		}
	}
	if m, err := s.GetCRLMetaInfo(); err != nil || m == nil {
		b.WriteString("meta=absent;")
	} else {
		nu := int64(0)
		if !m.NextUpdate.IsZero() {
			nu = m.NextUpdate.Unix()
		}
		fmt.Fprintf(&b, "meta=%s/%d/%d;", m.Issuer.String(), m.ThisUpdate.Unix(), nu)
	}
	if x, err := s.GetCRLExtMetaInfo(); err != nil || x == nil {
		b.WriteString("ext=absent;")
	} else if x.CRLNumber == nil {
		b.WriteString("ext=nil;")
	} else {
		fmt.Fprintf(&b, "ext=%s;", x.CRLNumber.String())
	}
	if c, err := s.GetCRLSignatureCert(); err != nil || c == nil {
		b.WriteString("signer=absent;")
	} else {
		fmt.Fprintf(&b, "signer=%x/%v;", c.RawCertificate[len(c.RawCertificate)-8:], c.Certificate != nil && string(c.Certificate.Raw) == string(c.RawCertificate))
	}
	if l, err := s.GetCRLLocations(); err != nil || l == nil {
		b.WriteString("locs=absent;")
	} else {
		fmt.Fprintf(&b, "locs=%q/%q/%q;", l.CRLUrl, l.CRLFile, strings.Join(l.CRLDistributionPoints, "|"))
	}
	return b.String()
}

func obsModel(m *model, v *values) string {
	var b strings.Builder
	for ii, iss := range v.issuers {
		for ei, ent := range v.entries {
			if me, ok := m.entries[iss.String()+"|"+ent.SerialNumber.String()]; ok {
				fmt.Fprintf(&b, "L%d.%d=%s@%d[%s];", ii, ei, me.serial, me.date.Unix(), me.exts)
			}
		}
	}
	if m.meta == nil {
		b.WriteString("meta=absent;")
	} else {
		nu := int64(0)
		if !m.meta.NextUpdate.IsZero() {
			nu = m.meta.NextUpdate.Unix()
		}
		fmt.Fprintf(&b, "meta=%s/%d/%d;", m.meta.Issuer.String(), m.meta.ThisUpdate.Unix(), nu)
	}
	if !m.extSet {
		b.WriteString("ext=absent;")
	} else if m.ext.CRLNumber == nil {
		b.WriteString("ext=nil;")
	} else {
		fmt.Fprintf(&b, "ext=%s;", m.ext.CRLNumber.String())
	}
	if m.signer == nil {
		b.WriteString("signer=absent;")
	} else {
		fmt.Fprintf(&b, "signer=%x/true;", m.signer[len(m.signer)-8:])
	}
	if m.locs == nil {
		b.WriteString("locs=absent;")
	} else {
		fmt.Fprintf(&b, "locs=%q/%q/%q;", m.locs.CRLUrl, m.locs.CRLFile, strings.Join(m.locs.CRLDistributionPoints, "|"))
	}
	return b.String()
}

func firstDiff(a, b string) string {
	as, bs := strings.Split(a, ";"), strings.Split(b, ";")
	am := map[string]bool{}
	for _, x := range as {
		am[x] = true
	}
	bm := map[string]bool{}
	for _, x := range bs {
		bm[x] = true
	}
	for _, x := range as {
		if !bm[x] {
			return "only-first: " + trunc(x)
		}
	}
	for _, x := range bs {
		if !am[x] {
			return "only-second: " + trunc(x)
		}
	}
	return "order differs"
}

func trunc(s string) string {
	if len(s) > 160 {
		return s[:160] + "…"
	}
	return s
}

// runSeq runs a sequence in a fresh environment; returns (failure key, detail).
// runSeq applies seq to the three stores. endOnly = observations are taken only after the last
// operation (a store may behave differently when nothing reads between a write and a close or a
// replacement); otherwise after every operation.
func runSeq(dir string, v *values, seq []op, logger *zap.Logger, endOnly bool) (string, string, int) {
	_ = os.MkdirAll(dir, 0755)
	defer os.RemoveAll(dir)
	memF, _ := crlstore.CreateStoreFactory(crlstore.Map, dir, logger)
	diskF, _ := crlstore.CreateStoreFactory(crlstore.LevelDB, dir, logger)
	e := &env{v: v, memF: memF, diskF: diskF}
	t, err := e.newTriple(false)
	if err != nil {
		return "harness", err.Error(), 0
	}
	defer func() {
		t.mem.Close()
		t.disk.Close()
	}()
	checks := 0
	for i, o := range seq {
		if d := e.apply(t, o); d != "" {
			return "op-result." + o.Kind, fmt.Sprintf("step %d %s: %s", i, o, d), checks
		}
		if endOnly && i < len(seq)-1 {
			continue
		}
		om, od, omod := obsStore(t.mem, v), obsStore(t.disk, v), obsModel(t.mod, v)
		checks++
		if om != omod {
			return "memory-vs-model.after-" + o.Kind, fmt.Sprintf("step %d %s: %s", i, o, firstDiff(om, omod)), checks
		}
		if od != omod {
			return "disk-vs-model.after-" + o.Kind, fmt.Sprintf("step %d %s: %s", i, o, firstDiff(od, omod)), checks
		}
	}
	return "", "", checks
}

func seqString(seq []op) string {
	var s []string
	for _, o := range seq {
		s = append(s, o.String())
	}
	return strings.Join(s, " ; ")
}

func main() {
	run := report.New("C18", "exploration")
	run.Rule("sequences over {start, insert, ext-meta, signer, locations, replace-with(nested store), close+reopen}; exhaustive up to a bounded length over a 14-symbol alphabet (two values per letter, plus the re-insert of a stored pair with another date and other extensions), longer ones seeded random over the full value set; after every op (and, for sequences that close or replace a store, also in a second run only after the last op) all observations (lookups for every issuer x serial probe, meta, ext-meta, signer, locations) are compared memory <-> disk <-> abstract map; non-trivial = sequence contains >=1 insert or replace and >=1 further op; distinct = sequence text")
	run.Assume("observations compared at second precision; IsEmpty is not compared (backends define it differently and the property does not list it)", "meta times below 2050")
	scratch, cleanup := report.Scratch("C18")
	defer cleanup()
	rng := rand.New(rand.NewSource(run.Seed))
	v := buildValues(rng)
	logger := l2.DebugLogger()

	// alphabet for exhaustive enumeration
	sub1 := []op{{Kind: "start", A: 1}, {Kind: "insert", A: 1, B: 0}, {Kind: "locs", A: 0}}
	sub2 := []op{{Kind: "insert", A: 0, B: 1}, {Kind: "insert", A: 2, B: 0}, {Kind: "ext", A: 2}, {Kind: "signer", A: 1}}
	alpha := []op{
		{Kind: "start", A: 0}, {Kind: "start", A: 1},
		{Kind: "insert", A: 0, B: 0}, {Kind: "insert", A: 1, B: 0}, {Kind: "insert", A: 11, B: 0},
		{Kind: "ext", A: 0}, {Kind: "ext", A: 2},
		{Kind: "signer", A: 0}, {Kind: "signer", A: 1},
		{Kind: "locs", A: 0}, {Kind: "locs", A: 2},
		{Kind: "replace", Sub: sub1}, {Kind: "replace", Sub: sub2},
		{Kind: "reopen"},
	}
	var seqs [][]op
	maxLen := 3
	if run.Thorough() {
		maxLen = 4
	}
	var rec func(prefix []op, depth int)
	rec = func(prefix []op, depth int) {
		if len(prefix) > 0 {
			seqs = append(seqs, append([]op(nil), prefix...))
		}
		if depth == maxLen {
			return
		}
		for _, a := range alpha {
			rec(append(prefix, a), depth+1)
		}
	}
	rec(nil, 0)
	exhaustiveCount := len(seqs)
	// sampled longer exhaustive-alphabet sequences (quick: length 4 sample)
	if !run.Thorough() {
		for i := 0; i < 2500; i++ {
			var s []op
			for j := 0; j < 4; j++ {
				s = append(s, alpha[rng.Intn(len(alpha))])
			}
			seqs = append(seqs, s)
		}
	}
	// random long sequences over the full value set
	randOp := func(depth int) op {
		var mk func(d int) op
		mk = func(d int) op {
			switch k := rng.Intn(14); {
			case k < 5:
				return op{Kind: "insert", A: rng.Intn(len(v.entries)), B: rng.Intn(len(v.issuers))}
			case k < 7:
				return op{Kind: "start", A: rng.Intn(len(v.metas))}
			case k < 8:
				return op{Kind: "ext", A: rng.Intn(len(v.exts))}
			case k < 9:
				return op{Kind: "signer", A: rng.Intn(len(v.signers))}
			case k < 10:
				return op{Kind: "locs", A: rng.Intn(len(v.locs))}
			case k < 12:
				return op{Kind: "reopen"}
			default:
				// the replacement store is always a temporary store filled by plain writes: the code
				// base never replaces the content of a temporary store (LevelDbStore.Update moves the
				// new data to the path of the *identifier*, which is the live store), so nested
				// replace / reopen of a temporary store would be harness misuse, not a finding.
				if d >= 1 {
					return op{Kind: "insert", A: rng.Intn(len(v.entries)), B: rng.Intn(len(v.issuers))}
				}
				var sub []op
				for i := 0; i < rng.Intn(6); i++ {
					so := mk(d + 1)
					if so.Kind == "reopen" || so.Kind == "replace" {
						continue
					}
					sub = append(sub, so)
				}
				return op{Kind: "replace", Sub: sub}
			}
		}
		return mk(depth)
	}
	nrand := 600
	if run.Thorough() {
		nrand = 4000
	}
	for i := 0; i < nrand; i++ {
		var s []op
		for j := 0; j < 30; j++ {
			s = append(s, randOp(0))
		}
		seqs = append(seqs, s)
	}

	jobs := make(chan int, len(seqs))
	for i := range seqs {
		jobs <- i
	}
	close(jobs)
	var wg sync.WaitGroup
	for w := 0; w < 16; w++ {
		wg.Add(1)
		go func(w int) {
			defer wg.Done()
			for i := range jobs {
				seq := seqs[i]
				key, detail, checks := runSeq(filepath.Join(scratch, fmt.Sprintf("w%d-%d", w, i)), v, seq, logger, false)
				run.Eval(1)
				run.Count("observation_points_compared", int64(checks))
				txt := seqString(seq)
				if key == "" && len(seq) >= 2 {
					// once more without reading in between, when the sequence closes or replaces a store
					for _, o := range seq[1:] {
						if o.Kind == "reopen" || o.Kind == "replace" {
							k2, d2, c2 := runSeq(filepath.Join(scratch, fmt.Sprintf("w%d-%d-e", w, i)), v, seq, logger, true)
							run.Eval(1)
							run.Count("observation_points_compared", int64(c2))
							run.Count("sequences_also_run_without_intermediate_reads", 1)
							if k2 != "" {
								key, detail = k2+".no-intermediate-reads", d2
							}
							break
						}
					}
				}
				if key != "" {
					run.Violation(key, detail+" | sequence: "+trunc(txt), &report.Replay{Case: map[string]any{"sequence": txt, "detail": detail}})
					continue
				}
				nt := 0
				for _, o := range seq {
					if o.Kind == "insert" || o.Kind == "replace" {
						nt++
					}
				}
				if nt >= 1 && len(seq) >= 2 {
					run.NonTrivial(txt)
				}
				if i%1500 == 7 {
					run.Sample(txt)
				}
			}
		}(w)
	}
	wg.Wait()
	run.Set("exhaustive_sequences_up_to_length", maxLen)
	run.Set("exhaustive_sequence_count", exhaustiveCount)
	run.Set("alphabet_size", len(alpha))
	run.Exhaustive(false)
	run.Finish(100)
}
