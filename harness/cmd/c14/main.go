// c14: OCSP cache soundness — right certificate, bounded lifetime (history monitor in real time
// with one-sided age bounds; responder hit log is the witness of "served from cache").
package main

import (
	"crypto/x509"
	"fmt"
	"math/big"
	"math/rand"
	"path/filepath"
	"strings"
	"sync"
	"sync/atomic"
	"time"

	"github.com/muesli/cache2go"
	"golang.org/x/crypto/ocsp"

	"github.com/gr33nbl00d/caddy-revocation-validator/config"
	repoocsp "github.com/gr33nbl00d/caddy-revocation-validator/ocsp"

	"verif/harness/lab/der"
	"verif/harness/lab/l2"
	"verif/harness/lab/origin"
	"verif/harness/lab/pki"
	"verif/harness/lab/report"
	"verif/harness/lab/sut"
	"verif/harness/lab/world"
)

type responder struct {
	mu     sync.Mutex
	status map[string]world.OCSPStatus // serial -> status
	mode   map[string]string           // serial -> "", "down", "garbage", "stranger"
	hits   map[string]int
}

func newChecker(strict bool, d time.Duration) *repoocsp.OCSPRevocationChecker {
	c := &repoocsp.OCSPRevocationChecker{}
	_ = c.Provision(&config.OCSPConfig{OCSPAIAStrict: strict, DefaultCacheDurationParsed: d, TrustedResponderCerts: []*x509.Certificate{}}, l2.DebugLogger())
	return c
}

type env struct {
	run      *report.Run
	w        *world.World
	r        *responder
	url      string
	stranger *pki.CA
	lateMax  atomic.Int64 // worst timer lateness in ns
}

func (e *env) install(w *world.World, path string, issuer *pki.CA) {
	w.OCSP.Set(path, origin.Func(func(req []byte) (int, []byte) {
		rq, err := ocsp.ParseRequest(req)
		if err != nil {
			return 400, nil
		}
		k := rq.SerialNumber.String()
		e.r.mu.Lock()
		e.r.hits[path+"#"+k]++
		st, mode := e.r.status[path+"#"+k], e.r.mode[path+"#"+k]
		e.r.mu.Unlock()
		switch mode {
		case "down":
			return 500, []byte("<html>down</html>")
		case "garbage":
			return 200, []byte("garbage garbage")
		case "stranger":
			b, _ := world.MakeResponse(e.stranger, nil, nil, rq.SerialNumber, st)
			return 200, b
		}
		b, _ := world.MakeResponse(issuer, nil, nil, rq.SerialNumber, st)
		return 200, b
	}))
}

func (e *env) set(path string, serial *big.Int, st world.OCSPStatus, mode string) {
	e.r.mu.Lock()
	e.r.status[path+"#"+serial.String()] = st
	e.r.mode[path+"#"+serial.String()] = mode
	e.r.mu.Unlock()
}

func (e *env) hits(path string, serial *big.Int) int {
	e.r.mu.Lock()
	defer e.r.mu.Unlock()
	return e.r.hits[path+"#"+serial.String()]
}

type read struct {
	Call, Ret time.Duration
	Revoked   bool
	Err       bool
	Hit       bool // responder contacted during this call
}

// lifetime scenario: flips good->revoked at flipAt; reads at the given period for total.
// Violation (one-sided): a call served from cache (no responder hit) whose lower age bound
// (t_call - t_insert_return) exceeds lifetime + margin still says "good" after the flip.
func (e *env) lifetimeScenario(name string, chk *repoocsp.OCSPRevocationChecker, lifetime time.Duration, period, total time.Duration, next func(now time.Time) time.Time) {
	const path = "/a"
	margin := 3 * lifetime
	if margin < time.Second {
		margin = time.Second
	}
	serial := pki.NextSerial()
	chain := e.w.Leaf(serial, nil, []string{e.w.OCSP.URL(path)})
	st := world.OCSPStatus{Status: ocsp.Good}
	if next != nil {
		st.NextUpdate = next(time.Now())
	}
	e.set(path, serial, st, "")
	start := time.Now()
	var reads []read
	var insertRet time.Duration = -1
	flipped := false
	for time.Since(start) < total {
		if !flipped && time.Since(start) >= lifetime/2 {
			st2 := world.OCSPStatus{Status: ocsp.Revoked}
			e.set(path, serial, st2, "")
			flipped = true
		}
		h0 := e.hits(path, serial)
		c := time.Since(start)
		s, err := chk.IsRevoked(chain[0], [][]*x509.Certificate{chain})
		r := read{Call: c, Ret: time.Since(start), Err: err != nil, Revoked: s != nil && s.Revoked, Hit: e.hits(path, serial) > h0}
		reads = append(reads, r)
		if r.Hit && !r.Revoked && !r.Err {
			insertRet = r.Ret // (re-)inserted as good
		}
		time.Sleep(period)
	}
	e.run.Eval(len(reads))
	late := time.Duration(e.lateMax.Load())
	if late > margin/4 {
		e.run.Inconclusive(fmt.Sprintf("%s: timers fired up to %v late (margin %v)", name, late, margin))
		return
	}
	cachedReads := 0
	for _, r := range reads {
		if !r.Hit && !r.Err {
			cachedReads++
			if !r.Revoked && insertRet >= 0 && r.Call-insertRet > lifetime+margin {
				e.run.Violation("lifetime."+name+".cached-verdict-outlived-lifetime", fmt.Sprintf("%s: a cached 'good' was returned %v after it was inserted (lifetime %v, margin %v, read period %v); first reads: %s", name, r.Call-insertRet, lifetime, margin, period, fmtReads(reads)), &report.Replay{Case: map[string]any{"scenario": name, "reads": reads}})
				return
			}
		}
	}
	lastRevoked := len(reads) > 0 && reads[len(reads)-1].Revoked
	if total > lifetime+margin+lifetime/2 && !lastRevoked {
		e.run.Violation("lifetime."+name+".revocation-never-seen", fmt.Sprintf("%s: responder says revoked since %v, still not seen after %v: %s", name, lifetime/2, total, fmtReads(reads)), &report.Replay{Case: map[string]any{"scenario": name, "reads": reads}})
		return
	}
	if cachedReads > 0 {
		e.run.NonTrivial(fmt.Sprintf("%s lifetime=%v period=%v", name, lifetime, period))
	}
	e.run.Count("reads_served_from_cache", int64(cachedReads))
	e.run.Sample(map[string]any{"scenario": name, "lifetime_ms": lifetime.Milliseconds(), "period_ms": period.Milliseconds(), "reads": len(reads), "cached_reads": cachedReads, "history": fmtReads(reads)})
}

func fmtReads(rs []read) string {
	s := ""
	for i, r := range rs {
		if i > 14 && i < len(rs)-6 {
			if i == 15 {
				s += "… "
			}
			continue
		}
		v := "good"
		if r.Revoked {
			v = "REVOKED"
		}
		if r.Err {
			v = "err"
		}
		src := "cache"
		if r.Hit {
			src = "responder"
		}
		s += fmt.Sprintf("[%dms %s/%s] ", r.Call.Milliseconds(), v, src)
	}
	return s
}

func main() {
	run := report.New("C14", "exploration")
	run.Rule("scenarios (real time, small durations): S1 identity (two issuers, equal subject+serial; certificates with keyIdentifier / issuer+serial / long / no authorityKeyIdentifier; issuers whose names are the same attributes in another order; issuers whose one-attribute names differ by a trailing digit that the other certificate's serial begins with), S2 default lifetime with read periods above and below the lifetime and a good->revoked flip, S2d an expired entry with the responder unavailable under aia_strict is not served, S3 nextUpdate past / near (requested lifespan read from the cache table), S4 zero duration => hits == calls, S5 failed queries (down, garbage, unauthenticated; strict and lenient checker) are not cached, S6 two checker instances with different durations, S7 seeded provision/cleanup life cycles of 1 h-cache instances, after every step a fresh zero-duration instance must contact the responder for every certificate cached so far; oracle one-sided: a verdict served without a responder hit at an age above lifetime+margin, or for another issuer's certificate, is a violation; non-trivial = the scenario observed at least one read served from cache (or, for S4/S5, responder hits on every call); distinct = scenario instance")
	run.Assume("all stamps from one monotonic clock in the harness process; a lateness probe voids a scenario when 5 ms timers fire more than margin/4 late", "margin = max(1 s, 3 x lifetime)")
	scratch, _ := report.Scratch("C14")
	sut.QuietStderr(filepath.Join(scratch, "stderr.log"))
	w := world.New("C14")
	defer w.Close()
	e := &env{run: run, w: w, r: &responder{status: map[string]world.OCSPStatus{}, mode: map[string]string{}, hits: map[string]int{}}, stranger: pki.NewRoot(pki.CertOpts{CN: "C14 stranger"})}
	e.install(w, "/a", w.Int)
	// lateness probe
	stop := make(chan struct{})
	go func() {
		for {
			select {
			case <-stop:
				return
			default:
			}
			t0 := time.Now()
			time.Sleep(5 * time.Millisecond)
			if l := time.Since(t0) - 5*time.Millisecond; int64(l) > e.lateMax.Load() {
				e.lateMax.Store(int64(l))
			}
		}
	}()

	durations := []time.Duration{400 * time.Millisecond}
	if run.Thorough() {
		durations = []time.Duration{200 * time.Millisecond, 400 * time.Millisecond, time.Second, 3 * time.Second}
	}
	var wg sync.WaitGroup
	goRun := func(f func()) {
		wg.Add(1)
		go func() { defer wg.Done(); f() }()
	}
	for _, d := range durations {
		d := d
		margin := 3 * d
		if margin < time.Second {
			margin = time.Second
		}
		total := d + margin + d
		// S2: fast reads (sliding expiry would keep the entry alive forever)
		goRun(func() { e.lifetimeScenario("S2-fast-reads", newChecker(true, d), d, d/10, total, nil) })
		// S2: slow reads (every 1.5 d)
		goRun(func() { e.lifetimeScenario("S2-slow-reads", newChecker(true, d), d, d*3/2, total, nil) })
		// S3a: nextUpdate in the past => default duration applies
		goRun(func() {
			e.lifetimeScenario("S3-nextupdate-past", newChecker(true, d), d, d/10, total, func(now time.Time) time.Time { return now.Add(-time.Hour) })
		})
	}
	// S3b: nextUpdate in the near future: requested lifespan <= nextUpdate - t_call + 900 s + 1 s
	goRun(func() {
		chk := newChecker(true, 400*time.Millisecond)
		serial := pki.NextSerial()
		chain := w.Leaf(serial, nil, []string{w.OCSP.URL("/a")})
		tCall := time.Now()
		nu := tCall.Add(2 * time.Second).Truncate(time.Second)
		e.set("/a", serial, world.OCSPStatus{Status: ocsp.Good, NextUpdate: nu}, "")
		_, err := chk.IsRevoked(chain[0], [][]*x509.Certificate{chain})
		run.Eval(1)
		if err != nil {
			run.Violation("S3.nextupdate-future.query-failed", err.Error(), nil)
			return
		}
		found := false
		suffix := "_" + serial.String()
		cache2go.Cache("ocsp_client").Foreach(func(key interface{}, item *cache2go.CacheItem) {
			ks, _ := key.(string)
			if len(ks) >= len(suffix) && ks[len(ks)-len(suffix):] == suffix {
				found = true
				limit := nu.Sub(tCall) + 900*time.Second + time.Second
				if item.LifeSpan() > limit {
					run.Violation("S3.nextupdate-future.lifespan-too-long", fmt.Sprintf("requested lifespan %v > nextUpdate-t_call+900s+1s = %v", item.LifeSpan(), limit), nil)
				}
				if item.LifeSpan() < 10*time.Second {
					run.Count("S3_lifespan_shorter_than_skew_allowance", 1)
				}
				run.Sample(map[string]any{"scenario": "S3-nextupdate-future", "requested_lifespan_s": item.LifeSpan().Seconds(), "limit_s": limit.Seconds()})
			}
		})
		if !found {
			run.Inconclusive("S3-nextupdate-future: no cache item for the certificate could be found")
			return
		}
		run.NonTrivial("S3-nextupdate-future")
	})
	// S3c: pre-produced responses (thisUpdate long ago): nextUpdate already past and duration 0 =>
	// nothing is cached; nextUpdate near => lifetime counts from now, not from thisUpdate
	goRun(func() {
		for _, v := range []struct {
			name string
			this time.Duration
			next time.Duration
		}{{"this-48h-ago.next-1h-ago", -48 * time.Hour, -time.Hour}, {"this-30d-ago.next-1s-ago", -30 * 24 * time.Hour, -time.Second}} {
			chk := newChecker(true, 0)
			serial := pki.NextSerial()
			chain := w.Leaf(serial, nil, []string{w.OCSP.URL("/a")})
			now := time.Now()
			e.set("/a", serial, world.OCSPStatus{Status: ocsp.Good, ThisUpdate: now.Add(v.this), NextUpdate: now.Add(v.next)}, "")
			_, err1 := chk.IsRevoked(chain[0], [][]*x509.Certificate{chain})
			e.set("/a", serial, world.OCSPStatus{Status: ocsp.Revoked, ThisUpdate: now.Add(v.this), NextUpdate: now.Add(v.next)}, "")
			h := e.hits("/a", serial)
			s2, err2 := chk.IsRevoked(chain[0], [][]*x509.Certificate{chain})
			run.Eval(2)
			if err1 != nil {
				run.Inconclusive("S3c: first query failed: " + err1.Error())
				continue
			}
			if e.hits("/a", serial) == h || err2 != nil || s2 == nil || !s2.Revoked {
				run.Violation("S3c.stale-response-cached."+v.name, fmt.Sprintf("response with %s and default_cache_duration 0 was cached: second call hits=%d err=%v revoked=%v although the responder now says revoked", v.name, e.hits("/a", serial)-h, err2, s2 != nil && s2.Revoked), nil)
				continue
			}
			run.NonTrivial("S3c " + v.name)
		}
		// near future nextUpdate with an old thisUpdate: requested lifespan bounded from now
		chk := newChecker(true, 0)
		serial := pki.NextSerial()
		chain := w.Leaf(serial, nil, []string{w.OCSP.URL("/a")})
		tCall := time.Now()
		nu := tCall.Add(3 * time.Second).Truncate(time.Second)
		e.set("/a", serial, world.OCSPStatus{Status: ocsp.Good, ThisUpdate: tCall.Add(-72 * time.Hour), NextUpdate: nu}, "")
		_, _ = chk.IsRevoked(chain[0], [][]*x509.Certificate{chain})
		suffix := "_" + serial.String()
		found := false
		cache2go.Cache("ocsp_client").Foreach(func(key interface{}, item *cache2go.CacheItem) {
			ks, _ := key.(string)
			if len(ks) >= len(suffix) && ks[len(ks)-len(suffix):] == suffix {
				found = true
				limit := nu.Sub(tCall) + 900*time.Second + time.Second
				if item.LifeSpan() > limit {
					run.Violation("S3c.old-thisupdate.lifespan-too-long", fmt.Sprintf("thisUpdate 72 h ago, nextUpdate in 3 s: requested lifespan %v > %v", item.LifeSpan(), limit), nil)
				}
			}
		})
		run.Eval(1)
		if found {
			run.NonTrivial("S3c old thisUpdate, near nextUpdate")
		}
	})
	// S1: identity — issuers A and B, equal subject and serial
	goRun(func() {
		wB := world.New("C14-B")
		defer wB.Close()
		e.install(wB, "/b", wB.Int)
		// a second pair of issuers whose names consist of the same attributes in another order
		cnO, oO, cO := "2.5.4.3", "2.5.4.10", "2.5.4.6"
		wRA := world.NewNamed("C14-RA", nil, nil, der.Name([]der.ATV{{cO, der.TagPrintable, "DE"}}, []der.ATV{{oO, der.TagUTF8String, "Org"}}, []der.ATV{{cnO, der.TagUTF8String, "Issuing CA"}}))
		wRB := world.NewNamed("C14-RB", nil, nil, der.Name([]der.ATV{{cnO, der.TagUTF8String, "Issuing CA"}}, []der.ATV{{oO, der.TagUTF8String, "Org"}}, []der.ATV{{cO, der.TagPrintable, "DE"}}))
		defer wRA.Close()
		defer wRB.Close()
		e.install(wRA, "/ra", wRA.Int)
		e.install(wRB, "/rb", wRB.Int)
		// a third pair: single-attribute names where B's name is A's name plus one digit, and A's serial is that
		// digit followed by B's serial (name and serial written one after the other are the same text for both)
		wDA := world.NewNamed("C14-DA", nil, nil, der.Name([]der.ATV{{cnO, der.TagUTF8String, "Issuing CA 1"}}))
		wDB := world.NewNamed("C14-DB", nil, nil, der.Name([]der.ATV{{cnO, der.TagUTF8String, "Issuing CA 12"}}))
		defer wDA.Close()
		defer wDB.Close()
		e.install(wDA, "/da", wDA.Int)
		e.install(wDB, "/db", wDB.Int)
		for _, variant0 := range []string{"A-good.B-down.strict", "A-revoked.B-down.lenient", "A-good.B-revoked",
			"A-good.B-down.strict/names=reordered", "A-good.B-revoked/names=reordered", "A-revoked.B-down.lenient/names=reordered",
			"A-good.B-down.strict/names=digit-tail", "A-good.B-revoked/names=digit-tail", "A-revoked.B-down.lenient/names=digit-tail",
			"A-good.B-down.strict/aki=issuer-serial", "A-revoked.B-down.lenient/aki=issuer-serial", "A-good.B-revoked/aki=issuer-serial",
			"A-good.B-revoked/aki=long", "A-good.B-revoked/aki=none"} {
			// the certificates' authorityKeyIdentifier: keyIdentifier (default), issuer+serial only, long form, absent
			variant, akiForm, _ := strings.Cut(variant0, "/aki=")
			w, wB, pathA, pathB := w, wB, "/a", "/b"
			if v2, _, ok := strings.Cut(variant, "/names=reordered"); ok {
				variant, akiForm = v2, "names-reordered"
				w, wB, pathA, pathB = wRA, wRB, "/ra", "/rb"
			}
			if v2, _, ok := strings.Cut(variant, "/names=digit-tail"); ok {
				variant, akiForm = v2, "names-digit-tail"
				w, wB, pathA, pathB = wDA, wDB, "/da", "/db"
			}
			serial := pki.NextSerial()
			serialB := serial
			if akiForm == "names-digit-tail" {
				serialB = serial
				serial, _ = new(big.Int).SetString("2"+serialB.String(), 10)
			}
			pkiAKI := akiForm
			if akiForm == "none" || akiForm == "names-reordered" || akiForm == "names-digit-tail" {
				pkiAKI = ""
			}
			subj := "same subject " + serial.String()
			leafA := w.Int.Issue(pki.CertOpts{CN: subj, Serial: serial, OCSP: []string{w.OCSP.URL(pathA)}, AKIForm: pkiAKI, NoAKI: akiForm == "none"})
			leafB := wB.Int.Issue(pki.CertOpts{CN: subj, Serial: serialB, OCSP: []string{wB.OCSP.URL(pathB)}, AKIForm: pkiAKI, NoAKI: akiForm == "none"})
			chainA := []*x509.Certificate{leafA.Cert, w.Int.Cert, w.Root.Cert}
			chainB := []*x509.Certificate{leafB.Cert, wB.Int.Cert, wB.Root.Cert}
			strict := newChecker(true, time.Hour)
			lenient := newChecker(false, time.Hour)
			run.Eval(1)
			switch variant {
			case "A-good.B-down.strict":
				e.set(pathA, serial, world.OCSPStatus{Status: ocsp.Good}, "")
				e.setOn(wB, pathB, serialB, world.OCSPStatus{}, "down")
				_, errA := strict.IsRevoked(chainA[0], [][]*x509.Certificate{chainA})
				_, errB := strict.IsRevoked(chainB[0], [][]*x509.Certificate{chainB})
				if errA != nil {
					run.Inconclusive("S1: A's own query failed: " + errA.Error())
					continue
				}
				if errB == nil {
					run.Violation("S1.identity.other-issuers-entry-served"+akiKey(akiForm), "certificate of issuer B (responder down, strict) was answered from the cache entry of issuer A's certificate with equal subject and serial", &report.Replay{Case: variant})
					continue
				}
			case "A-revoked.B-down.lenient":
				e.set(pathA, serial, world.OCSPStatus{Status: ocsp.Revoked}, "")
				e.setOn(wB, pathB, serialB, world.OCSPStatus{}, "down")
				sA, _ := lenient.IsRevoked(chainA[0], [][]*x509.Certificate{chainA})
				sB, errB := lenient.IsRevoked(chainB[0], [][]*x509.Certificate{chainB})
				if sA == nil || !sA.Revoked {
					run.Inconclusive("S1: A's revoked answer not observed")
					continue
				}
				if errB != nil || (sB != nil && sB.Revoked) {
					run.Violation("S1.identity.other-issuers-revocation-applied"+akiKey(akiForm), "certificate of issuer B was reported revoked/denied because issuer A's certificate with equal subject and serial is revoked", &report.Replay{Case: variant})
					continue
				}
			case "A-good.B-revoked":
				e.set(pathA, serial, world.OCSPStatus{Status: ocsp.Good}, "")
				e.setOn(wB, pathB, serialB, world.OCSPStatus{Status: ocsp.Revoked}, "")
				_, _ = strict.IsRevoked(chainA[0], [][]*x509.Certificate{chainA})
				sB, errB := strict.IsRevoked(chainB[0], [][]*x509.Certificate{chainB})
				if errB != nil || sB == nil || !sB.Revoked {
					run.Violation("S1.identity.revoked-certificate-answered-from-other-issuers-entry"+akiKey(akiForm), fmt.Sprintf("issuer B's revoked certificate got err=%v status=%v after issuer A's equal-named certificate was cached as good", errB, sB), &report.Replay{Case: variant})
					continue
				}
			}
			run.NonTrivial("S1 " + variant0)
		}
	})
	// S1c: identity within one issuer — serials that collide under truncation / prefixing
	goRun(func() {
		base := new(big.Int).SetBytes([]byte{0x5a, 0x17, 0x23, 0x99, 0x01, 0x02, 0x03, 0x04})
		pairs := map[string][2]*big.Int{
			"plus-2^64":        {base, new(big.Int).Add(base, new(big.Int).Lsh(big.NewInt(1), 64))},
			"plus-2^128":       {base, new(big.Int).Add(base, new(big.Int).Lsh(big.NewInt(1), 128))},
			"plus-2^32":        {base, new(big.Int).Add(base, new(big.Int).Lsh(big.NewInt(1), 32))},
			"decimal-prefix":   {big.NewInt(123456), big.NewInt(1234567)},
			"byte-suffix":      {big.NewInt(0x1234), big.NewInt(0x123400)},
			"20-byte-low-bits": {new(big.Int).Lsh(big.NewInt(0x77), 152), new(big.Int).Add(new(big.Int).Lsh(big.NewInt(0x77), 152), big.NewInt(1))},
		}
		for name, pr := range pairs {
			strict := newChecker(true, time.Hour)
			chainA := w.Leaf(pr[0], nil, []string{w.OCSP.URL("/a")})
			chainB := w.Leaf(pr[1], nil, []string{w.OCSP.URL("/a")})
			e.set("/a", pr[0], world.OCSPStatus{Status: ocsp.Good}, "")
			e.set("/a", pr[1], world.OCSPStatus{Status: ocsp.Revoked}, "")
			_, errA := strict.IsRevoked(chainA[0], [][]*x509.Certificate{chainA})
			hB := e.hits("/a", pr[1])
			sB, errB := strict.IsRevoked(chainB[0], [][]*x509.Certificate{chainB})
			run.Eval(2)
			if errA != nil {
				run.Inconclusive("S1c: query for A failed: " + errA.Error())
				continue
			}
			if errB != nil || sB == nil || !sB.Revoked {
				run.Violation("S1c.identity.serial-collision."+name, fmt.Sprintf("same issuer, serials %s (good, cached) and %s (revoked at the responder): the second was answered err=%v revoked=%v with %d responder hits", pr[0], pr[1], errB, sB != nil && sB.Revoked, e.hits("/a", pr[1])-hB), &report.Replay{Case: name})
				continue
			}
			run.NonTrivial("S1c " + name)
		}
	})
	// S2d: the lifetime is over and the responder is unreachable: the old verdict is not an answer any more
	for _, mode := range []string{"down", "garbage"} {
		mode := mode
		goRun(func() {
			life := time.Second
			chk := newChecker(true, life)
			serial := pki.NextSerial()
			chain := w.Leaf(serial, nil, []string{w.OCSP.URL("/a")})
			e.set("/a", serial, world.OCSPStatus{Status: ocsp.Good}, "")
			t0 := time.Now()
			_, err0 := chk.IsRevoked(chain[0], [][]*x509.Certificate{chain})
			h0 := e.hits("/a", serial)
			// a read late inside the lifetime (the cache table counts its own, sliding, lifespan from here,
			// so the entry is still in the table when its lifetime is over)
			time.Sleep(time.Until(t0.Add(life * 8 / 10)))
			_, _ = chk.IsRevoked(chain[0], [][]*x509.Certificate{chain})
			readAt := time.Since(t0)
			hRead := e.hits("/a", serial)
			e.set("/a", serial, world.OCSPStatus{Status: ocsp.Revoked}, mode)
			time.Sleep(time.Until(t0.Add(life + life*4/10)))
			askedAt := time.Since(t0)
			st, err := chk.IsRevoked(chain[0], [][]*x509.Certificate{chain})
			run.Eval(1)
			if err0 != nil {
				run.Inconclusive("S2d: first query failed: " + err0.Error())
				return
			}
			if readAt > life*95/100 || hRead != h0 || askedAt > life*17/10 {
				run.Inconclusive(fmt.Sprintf("S2d: timing off (read at %v, asked at %v, responder hits %d -> %d)", readAt, askedAt, h0, hRead))
				return
			}
			if err == nil {
				run.Violation("lifetime.S2d-expired-entry-served-when-responder-"+mode, fmt.Sprintf("lifetime %v was over for %v, the responder is unavailable (%s), aia_strict: the call answered revoked=%v without error from the expired entry", life, askedAt-life, mode, st != nil && st.Revoked), nil)
				return
			}
			run.NonTrivial("S2d expired entry, responder " + mode)
		})
	}
	// S4: zero duration, no nextUpdate => every call contacts the responder
	goRun(func() {
		chk := newChecker(true, 0)
		serial := pki.NextSerial()
		chain := w.Leaf(serial, nil, []string{w.OCSP.URL("/a")})
		e.set("/a", serial, world.OCSPStatus{Status: ocsp.Good}, "")
		calls := 12
		for i := 0; i < calls; i++ {
			_, _ = chk.IsRevoked(chain[0], [][]*x509.Certificate{chain})
		}
		run.Eval(calls)
		if h := e.hits("/a", serial); h != calls {
			run.Violation("S4.zero-duration.cached", fmt.Sprintf("default_cache_duration 0 and no nextUpdate: %d calls but only %d responder hits", calls, h), nil)
			return
		}
		run.NonTrivial("S4 zero duration")
	})
	// S5: failed queries are never cached (under strict the failed call is an error, under lenient it is accepted; in both
	// the next call has to ask the responder again and must see its answer)
	for _, mode := range []string{"down", "garbage", "stranger", "down/lenient", "garbage/lenient", "stranger/lenient"} {
		mode := mode
		goRun(func() {
			omode, lenientS5 := strings.CutSuffix(mode, "/lenient")
			chk := newChecker(!lenientS5, time.Hour)
			serial := pki.NextSerial()
			chain := w.Leaf(serial, nil, []string{w.OCSP.URL("/a")})
			e.set("/a", serial, world.OCSPStatus{Status: ocsp.Good}, omode)
			s1, err1 := chk.IsRevoked(chain[0], [][]*x509.Certificate{chain})
			e.set("/a", serial, world.OCSPStatus{Status: ocsp.Revoked}, "")
			h := e.hits("/a", serial)
			s2, err2 := chk.IsRevoked(chain[0], [][]*x509.Certificate{chain})
			run.Eval(2)
			if !lenientS5 && err1 == nil {
				run.Violation("S5.failed-query."+mode+".accepted-under-strict", "first call with responder mode "+mode+" did not fail under strict", nil)
				return
			}
			if lenientS5 && (err1 != nil || (s1 != nil && s1.Revoked)) {
				run.Inconclusive("S5 " + mode + ": the failed query was not tolerated under lenient")
				return
			}
			if e.hits("/a", serial) == h {
				run.Violation("S5.failed-query."+mode+".cached", "after a failed query ("+mode+") the next call did not contact the responder", nil)
				return
			}
			if err2 != nil || s2 == nil || !s2.Revoked {
				run.Violation("S5.failed-query."+mode+".revocation-missed", fmt.Sprintf("responder recovered and says revoked, call returned err=%v", err2), nil)
				return
			}
			run.NonTrivial("S5 failed query " + mode)
		})
	}
	// S6: two checker instances with different durations
	goRun(func() {
		a := newChecker(true, time.Hour)
		b := newChecker(true, 0)
		serial := pki.NextSerial()
		chain := w.Leaf(serial, nil, []string{w.OCSP.URL("/a")})
		e.set("/a", serial, world.OCSPStatus{Status: ocsp.Good}, "")
		_, _ = a.IsRevoked(chain[0], [][]*x509.Certificate{chain})
		e.set("/a", serial, world.OCSPStatus{Status: ocsp.Revoked}, "")
		h := e.hits("/a", serial)
		sB, errB := b.IsRevoked(chain[0], [][]*x509.Certificate{chain})
		run.Eval(2)
		if e.hits("/a", serial) == h {
			run.Violation("S6.two-instances.zero-duration-instance-served-from-other-instances-cache", fmt.Sprintf("instance B (default_cache_duration 0) answered err=%v revoked=%v without contacting the responder, from the entry instance A (1 h) cached; the responder says revoked", errB, sB != nil && sB.Revoked), nil)
			return
		}
		run.NonTrivial("S6 two instances")
	})
	wg.Wait()
	close(stop)
	// S7 (sequential, after all other scenarios): instance life cycles. Instances with a 1 h cache are
	// provisioned and cleaned up in seeded order, each caches 'good' for its own certificates; after
	// every step a fresh instance with default_cache_duration 0 asks about every certificate cached so far
	// (the responder now says revoked): it must contact the responder and report revoked.
	{
		lrng := rand.New(rand.NewSource(run.Seed ^ 0x57))
		type inst struct {
			c     *repoocsp.OCSPRevocationChecker
			alive bool
		}
		var insts []*inst
		type cached struct {
			serial *big.Int
			chain  []*x509.Certificate
		}
		var all []cached
		bad := false
		steps := []string{"provision", "provision", "cleanup-oldest"}
		for i := 0; i < 9; i++ {
			steps = append(steps, []string{"provision", "cleanup-oldest", "cleanup-newest", "provision"}[lrng.Intn(4)])
		}
		for si, step := range steps {
			switch step {
			case "provision":
				in := &inst{c: newChecker(true, time.Hour), alive: true}
				insts = append(insts, in)
				serial := pki.NextSerial()
				chain := w.Leaf(serial, nil, []string{w.OCSP.URL("/a")})
				e.set("/a", serial, world.OCSPStatus{Status: ocsp.Good}, "")
				_, _ = in.c.IsRevoked(chain[0], [][]*x509.Certificate{chain})
				_, _ = in.c.IsRevoked(chain[0], [][]*x509.Certificate{chain})
				e.set("/a", serial, world.OCSPStatus{Status: ocsp.Revoked}, "")
				all = append(all, cached{serial, chain})
			default:
				var pick *inst
				for _, in := range insts {
					if in.alive {
						pick = in
						if step == "cleanup-oldest" {
							break
						}
					}
				}
				if pick != nil {
					_ = pick.c.Cleanup()
					pick.alive = false
				}
			}
			fresh := newChecker(true, 0)
			for _, cd := range all {
				h := e.hits("/a", cd.serial)
				st, err := fresh.IsRevoked(cd.chain[0], [][]*x509.Certificate{cd.chain})
				run.Eval(1)
				if e.hits("/a", cd.serial) == h || err != nil || st == nil || !st.Revoked {
					bad = true
					run.Violation("S7.lifecycle.fresh-zero-duration-instance-served-from-another-instances-cache", fmt.Sprintf("after life-cycle steps %v a fresh instance with default_cache_duration 0 answered err=%v revoked=%v (responder contacted: %v) for a certificate another instance cached as good; the responder says revoked", steps[:si+1], err, st != nil && st.Revoked, e.hits("/a", cd.serial) != h), &report.Replay{Case: map[string]any{"steps": steps[:si+1]}})
					break
				}
			}
			_ = fresh.Cleanup()
			if bad {
				break
			}
		}
		if !bad {
			run.NonTrivial("S7 instance life cycles")
		}
		for _, in := range insts {
			if in.alive {
				_ = in.c.Cleanup()
			}
		}
	}
	run.Set("worst_timer_lateness_ms", float64(e.lateMax.Load())/1e6)
	run.Finish(6)
}

func akiKey(form string) string {
	if form == "" {
		return ""
	}
	return ".aki-" + form
}

func (e *env) setOn(w *world.World, path string, serial *big.Int, st world.OCSPStatus, mode string) {
	e.set(path, serial, st, mode)
}
