// c13: concurrency safety — Go race detector + deadlock/crash monitors + verdict sanity over
// stress workloads in child processes (handshake storms, update passes, config-CRL updates,
// origin faults incl. bad signatures, cleanup; OCSP lookups with cache expiry).
package main

import (
	"crypto/x509"
	"encoding/json"
	"fmt"
	"math/big"
	"math/rand"
	"os"
	"os/exec"
	"path/filepath"
	"regexp"
	"runtime"
	"sort"
	"strings"
	"sync"
	"sync/atomic"
	"syscall"
	"time"

	"golang.org/x/crypto/ocsp"

	"github.com/gr33nbl00d/caddy-revocation-validator/config"
	"github.com/gr33nbl00d/caddy-revocation-validator/core"
	repoocsp "github.com/gr33nbl00d/caddy-revocation-validator/ocsp"

	"verif/harness/lab/crlgen"
	"verif/harness/lab/gen"
	"verif/harness/lab/l2"
	"verif/harness/lab/origin"
	"verif/harness/lab/pki"
	"verif/harness/lab/report"
	"verif/harness/lab/sut"
	"verif/harness/lab/world"
)

type workload struct {
	ID         int
	Kind       string // crl-storm | crl-ticker | ocsp
	Backend    string
	Fetch      string
	Goroutines int
	Sets       string // shared | distinct | mixed-with-configured
	Procs      int
	Seed       int64
	DurationMs int
}

func (w workload) String() string {
	return fmt.Sprintf("kind=%s backend=%s fetch=%s G=%d sets=%s GOMAXPROCS=%d", w.Kind, w.Backend, w.Fetch, w.Goroutines, w.Sets, w.Procs)
}

type childReport struct {
	Calls          int64    `json:"calls"`
	Handshakes     int64    `json:"handshakes"`
	Steps          int64    `json:"steps"`
	VerdictErrors  []string `json:"verdict_errors"`
	Panics         []string `json:"panics"`
	HookOrderings  int      `json:"hook_orderings"`
	Stalled        string   `json:"stalled,omitempty"`
	CleanupOverlap int64    `json:"cleanup_overlap"`
	SlowInflight   int64    `json:"cleanups_during_first_download"`
	Finished       bool     `json:"finished"`
}

// ------------------------------------------------------------------ child side

type callInfo struct {
	what  string
	start time.Time
}

type inflight struct {
	mu    sync.Mutex
	calls map[int64]callInfo
	next  int64
}

func (f *inflight) begin(what string) int64 {
	f.mu.Lock()
	f.next++
	id := f.next
	f.calls[id] = callInfo{what, time.Now()}
	f.mu.Unlock()
	return id
}
func (f *inflight) end(id int64) {
	f.mu.Lock()
	delete(f.calls, id)
	f.mu.Unlock()
}
func (f *inflight) oldest() (string, time.Duration) {
	f.mu.Lock()
	defer f.mu.Unlock()
	var w string
	var d time.Duration
	for _, c := range f.calls {
		if x := time.Since(c.start); x > d {
			d, w = x, c.what
		}
	}
	return w, d
}

var (
	fl    = &inflight{calls: map[int64]callInfo{}}
	rep   childReport
	repMu sync.Mutex
	calls atomic.Int64
)

// guard runs one API call: it must return (stall monitor) and must not panic.
func guard(what string, f func()) {
	id := fl.begin(what)
	defer fl.end(id)
	defer func() {
		if r := recover(); r != nil {
			buf := make([]byte, 4096)
			n := runtime.Stack(buf, false)
			repMu.Lock()
			if len(rep.Panics) < 10 {
				rep.Panics = append(rep.Panics, fmt.Sprintf("%s: %v\n%s", what, r, buf[:n]))
			}
			repMu.Unlock()
		}
	}()
	f()
	calls.Add(1)
}

func verdictError(s string) {
	repMu.Lock()
	if len(rep.VerdictErrors) < 20 {
		rep.VerdictErrors = append(rep.VerdictErrors, s)
	}
	repMu.Unlock()
}

func writeReport(dir string) {
	repMu.Lock()
	b, _ := json.Marshal(rep)
	repMu.Unlock()
	_ = os.WriteFile(filepath.Join(dir, "report.json"), b, 0644)
}

func childMain(dir string) {
	b, _ := os.ReadFile(filepath.Join(dir, "workload.json"))
	var wl workload
	_ = json.Unmarshal(b, &wl)
	runtime.GOMAXPROCS(wl.Procs)
	sut.QuietStderr(filepath.Join(dir, "stderr.log"))
	// stall monitor: an API call in flight for more than 20 s => dump all goroutines, exit 7
	go func() {
		for {
			time.Sleep(500 * time.Millisecond)
			if what, d := fl.oldest(); d > 20*time.Second {
				buf := make([]byte, 16<<20)
				n := runtime.Stack(buf, true)
				_ = os.WriteFile(filepath.Join(dir, "stall.dump"), buf[:n], 0644)
				repMu.Lock()
				rep.Stalled = what
				repMu.Unlock()
				writeReport(dir)
				os.Exit(7)
			}
		}
	}()
	// seeded yields at the hooks + ordering statistics
	l2.InstallHooks()
	var ymu sync.Mutex
	yr := rand.New(rand.NewSource(wl.Seed ^ 0xabcdef))
	orderings := map[uint64]bool{}
	var window []string
	l2.SetExtraHook(func(name string) {
		ymu.Lock()
		r := yr.Intn(12)
		if strings.Contains(name, "swap") || strings.Contains(name, "check.rlocked") || strings.Contains(name, "repo.load") || strings.Contains(name, "update.") {
			window = append(window, name)
			if len(window) > 5 {
				window = window[1:]
			}
			var h uint64 = 1469598103934665603
			for _, s := range window {
				for i := 0; i < len(s); i++ {
					h = (h ^ uint64(s[i])) * 1099511628211
				}
			}
			orderings[h] = true
		}
		ymu.Unlock()
		switch {
		case r < 4:
			runtime.Gosched()
		case r < 6:
			time.Sleep(time.Duration(10+r*20) * time.Microsecond)
		}
	})
	if wl.Kind == "ocsp" {
		ocspWorkload(wl, dir)
	} else if wl.Kind == "crl-slow-first-load" {
		slowFirstLoadWorkload(wl, dir)
	} else {
		crlWorkload(wl, dir)
	}
	ymu.Lock()
	rep.HookOrderings = len(orderings)
	ymu.Unlock()
	rep.Calls = calls.Load()
	rep.Finished = true
	writeReport(dir)
}

type cdpSet struct {
	path     string
	url      string
	base     []crlgen.Entry
	always   *big.Int
	never    *big.Int
	observed atomic.Bool // a rejection of the always-listed certificate was observed (CRL in force)
}

type hsCert struct {
	chain  []*x509.Certificate
	set    *cdpSet
	listed bool
}

func crlWorkload(wl workload, dir string) {
	rng := rand.New(rand.NewSource(wl.Seed))
	w := world.New(fmt.Sprintf("C13-%d", wl.ID))
	defer w.Close()
	nsets := 1
	if wl.Sets != "shared" {
		nsets = 4
	}
	var originMu sync.Mutex
	sets := make([]*cdpSet, nsets)
	// the issuing CA after a key roll: same name, new key (handshakes presenting it repair an entry
	// whose last refresh failed signature verification)
	int2 := w.Root.Issue(pki.CertOpts{RawSubject: w.Int.Cert.RawSubject, IsCA: true})
	publish := func(s *cdpSet, fault string) {
		originMu.Lock()
		defer originMu.Unlock()
		es := append([]crlgen.Entry(nil), s.base...)
		es = append(es, gen.Entries(rng, gen.Opts{N: 20 + rng.Intn(60), SerialWidth: 12})...)
		d := gen.SpecFor(w.Int, es).Build(w.Int.Key).DER
		switch fault {
		case "":
			w.CRL.Set(s.path, origin.Good(d))
		case "key-rolled":
			sp := gen.SpecFor(w.Int, es)
			sp.Exts = [][]byte{crlgen.AKIKeyID(int2.Cert.SubjectKeyId), crlgen.CRLNumberExt(big.NewInt(9))}
			w.CRL.Set(s.path, origin.Good(sp.Build(int2.Key).DER))
		case "badsig":
			d[len(d)-1] ^= 1
			w.CRL.Set(s.path, origin.Good(d))
		case "garbage":
			w.CRL.Set(s.path, origin.Garbage())
		case "http500":
			w.CRL.Set(s.path, origin.Status(500, []byte("x")))
		}
	}
	for i := range sets {
		s := &cdpSet{path: fmt.Sprintf("/s%d.crl", i)}
		s.url = w.CRL.URL(s.path)
		s.base = gen.Entries(rng, gen.Opts{N: 3, SerialWidth: 8})
		s.always = s.base[0].Serial
		s.never = gen.SerialOfWidth(rng, 9, false)
		sets[i] = s
		publish(s, "")
	}
	wd := filepath.Join(dir, "wd")
	_ = os.MkdirAll(wd, 0755)
	opts := l2.Opts{WorkDir: wd, Storage: wl.Backend, SigMode: "verify", Fetch: wl.Fetch, Strict: false, Interval: time.Hour}
	if wl.Kind == "crl-ticker" {
		opts.Interval = 50 * time.Millisecond
	}
	// configured trusted signer certificates: three unrelated CAs everywhere (five with the issuing CA
	// in the mixed sets), so that the per-handshake chain sets are built next to a non-trivial list
	for i := 0; i < 3; i++ {
		opts.Trusted = append(opts.Trusted, pki.NewRoot(pki.CertOpts{CN: fmt.Sprintf("C13 unrelated trusted signer %d", i)}).Cert)
	}
	var cfgLocs []*core.CRLLocations
	if wl.Sets == "mixed-with-configured" {
		cfgFile := filepath.Join(dir, "configured.crl")
		_ = os.WriteFile(cfgFile, gen.SpecFor(w.Int, sets[0].base).Build(w.Int.Key).DER, 0644)
		opts.CRLFiles = []string{cfgFile}
		opts.CRLUrls = []string{sets[1].url}
		opts.Trusted = append(opts.Trusted, pki.NewRoot(pki.CertOpts{CN: "C13 unrelated trusted signer 3"}).Cert, w.Int.Cert)
		cfgLocs = []*core.CRLLocations{{CRLFile: cfgFile}, {CRLUrl: sets[1].url}}
	}
	chk, err := l2.Start(opts)
	if err != nil {
		verdictError("provision failed: " + err.Error())
		return
	}
	var certs []hsCert
	for _, s := range sets {
		for k := 0; k < 2; k++ {
			certs = append(certs, hsCert{w.Leaf(s.always, []string{s.url}, nil), s, true})
			certs = append(certs, hsCert{w.Leaf(s.never, []string{s.url}, nil), s, false})
		}
		// certificates issued after the key roll: their chain carries the new CA certificate
		l2c := int2.Leaf(s.never, []string{s.url}, nil)
		certs = append(certs, hsCert{[]*x509.Certificate{l2c, int2.Cert, w.Root.Cert}, s, false})
	}
	var stop, cleanedUp, cleanupStarted atomic.Bool
	var wg sync.WaitGroup
	var handshakes, overlap, steps atomic.Int64
	for g := 0; g < wl.Goroutines; g++ {
		wg.Add(1)
		go func(g int) {
			defer wg.Done()
			handshakeLoop(g, wl, chk, certs, &stop, &cleanedUp, &cleanupStarted, &handshakes, &overlap)
		}(g)
	}
	wg.Add(1)
	go func() {
		defer wg.Done()
		stepperLoop(wl, chk, sets, publish, cfgLocs, w, &stop, &cleanedUp, &steps)
	}()
	time.Sleep(time.Duration(wl.DurationMs) * time.Millisecond)
	cleanupStarted.Store(true)
	cleanupCall(chk, &cleanedUp)
	time.Sleep(30 * time.Millisecond)
	stop.Store(true)
	wg.Wait()
	rep.Handshakes = handshakes.Load()
	rep.Steps = steps.Load()
	rep.CleanupOverlap = overlap.Load()
}

// slowFirstLoadWorkload: cycles of {fresh checker; handshakes naming never-seen CDPs whose origin
// answers slowly; Cleanup while first downloads are in flight}. Every call has to return.
func slowFirstLoadWorkload(wl workload, dir string) {
	rng := rand.New(rand.NewSource(wl.Seed))
	w := world.New(fmt.Sprintf("C13-%d", wl.ID))
	defer w.Close()
	doc := gen.SpecFor(w.Int, gen.Entries(rng, gen.Opts{N: 30, SerialWidth: 10})).Build(w.Int.Key).DER
	var downloading, served atomic.Int64
	w.CRL.SetDefault(origin.Func(func(req []byte) (int, []byte) {
		downloading.Add(1)
		defer downloading.Add(-1)
		n := served.Add(1)
		time.Sleep(time.Duration(90+(n*37)%120) * time.Millisecond)
		return 200, doc
	}))
	cycles := wl.DurationMs / 220
	var handshakes, overlap, during atomic.Int64
	for cy := 0; cy < cycles; cy++ {
		wd := filepath.Join(dir, fmt.Sprintf("wd%d", cy))
		_ = os.MkdirAll(wd, 0755)
		chk, err := l2.Start(l2.Opts{WorkDir: wd, Storage: wl.Backend, SigMode: "verify", Fetch: wl.Fetch, Interval: time.Hour})
		if err != nil {
			verdictError("provision failed: " + err.Error())
			return
		}
		var stop, cleanupStarted atomic.Bool
		var wg sync.WaitGroup
		for g := 0; g < wl.Goroutines; g++ {
			wg.Add(1)
			go func(g int) {
				defer wg.Done()
				for k := 0; !stop.Load(); k++ {
					// background mode: every handshake with a new CDP queues a serialized forced pass over
					// all entries (quadratic in the number of new CDPs), so three per cycle
					if wl.Fetch == "background" && (k >= 1 || g >= 3) {
						time.Sleep(time.Millisecond)
						continue
					}
					url := w.CRL.URL(fmt.Sprintf("/slow/c%d/g%d/k%d.crl", cy, g, k))
					chain := w.Leaf(pki.NextSerial(), []string{url}, nil)
					began := !cleanupStarted.Load()
					guard("handshake", func() { _, _ = chk.C.IsRevoked(chain[0], [][]*x509.Certificate{chain}) })
					handshakes.Add(1)
					if began && cleanupStarted.Load() {
						overlap.Add(1)
					}
				}
			}(g)
		}
		deadline := time.Now().Add(3 * time.Second)
		for downloading.Load() == 0 && time.Now().Before(deadline) {
			time.Sleep(200 * time.Microsecond)
		}
		time.Sleep(time.Duration(rng.Intn(60)) * time.Millisecond)
		if downloading.Load() > 0 {
			during.Add(1)
		}
		cleanupStarted.Store(true)
		var cleaned atomic.Bool
		cleanupCall(chk, &cleaned)
		stop.Store(true)
		wg.Wait()
		_ = os.RemoveAll(wd)
	}
	rep.Handshakes = handshakes.Load()
	rep.CleanupOverlap = overlap.Load()
	rep.SlowInflight = during.Load()
}

// handshakeLoop: role "handshake" (appears in race report stacks).
func handshakeLoop(g int, wl workload, chk *l2.Checker, certs []hsCert, stop, cleanedUp, cleanupStarted *atomic.Bool, handshakes, overlap *atomic.Int64) {
	r := rand.New(rand.NewSource(wl.Seed + int64(g)*104729))
	for !stop.Load() {
		c := certs[r.Intn(len(certs))]
		wasObserved := c.set.observed.Load()
		startedBeforeCleanup := !cleanedUp.Load()
		var revoked bool
		var err error
		guard("handshake", func() {
			st, e := chk.C.IsRevoked(c.chain[0], [][]*x509.Certificate{c.chain})
			err = e
			revoked = st != nil && st.Revoked
		})
		handshakes.Add(1)
		afterCleanup := cleanedUp.Load()
		if startedBeforeCleanup && cleanupStarted.Load() {
			overlap.Add(1)
		}
		if afterCleanup || cleanupStarted.Load() {
			continue // calls overlapping or following Cleanup may fail (C09 judges them); here they must only return
		}
		// verdict sanity (sound superset of the sequential outcomes)
		switch {
		case !c.listed && revoked:
			verdictError("a certificate that no published version lists was reported revoked")
		case !c.listed && err != nil:
			verdictError("a certificate that no published version lists was denied without strict mode: " + err.Error())
		case c.listed && err != nil:
			verdictError("lookup of a listed certificate returned an error without strict mode: " + err.Error())
		case c.listed && !revoked && wasObserved:
			verdictError("a certificate listed in every published version was accepted after its CRL had been observed in force")
		case c.listed && revoked:
			c.set.observed.Store(true)
		}
		if r.Intn(8) == 0 {
			time.Sleep(time.Duration(r.Intn(300)) * time.Microsecond)
		}
	}
}

// stepperLoop: role "stepper".
func stepperLoop(wl workload, chk *l2.Checker, sets []*cdpSet, publish func(*cdpSet, string), cfgLocs []*core.CRLLocations, w *world.World, stop, cleanedUp *atomic.Bool, steps *atomic.Int64) {
	r := rand.New(rand.NewSource(wl.Seed ^ 0x51e9))
	chains := core.NewCertificateChains([][]*x509.Certificate{{w.Int.Cert, w.Root.Cert}}, []*x509.Certificate{w.Int.Cert})
	faults := []string{"", "", "", "badsig", "garbage", "http500", "badsig", "key-rolled", "key-rolled"}
	for !stop.Load() && !cleanedUp.Load() {
		s := sets[r.Intn(len(sets))]
		switch r.Intn(6) {
		case 0:
			publish(s, faults[r.Intn(len(faults))])
		case 1:
			guard("update-pass(false)", func() { chk.C.VerifUpdateCRLs(false) })
		case 2, 3:
			guard("update-pass(true)", func() { chk.C.VerifUpdateCRLs(true) })
		case 4:
			if len(cfgLocs) > 0 {
				l := cfgLocs[r.Intn(len(cfgLocs))]
				guard("config-crl-update", func() { _ = chk.C.VerifRepository().UpdateCRL(l, chains) })
			} else {
				publish(s, "")
			}
		case 5:
			// the state 'last refresh failed signature verification', then handshakes hit AddCRL
			publish(s, []string{"badsig", "key-rolled", "key-rolled"}[r.Intn(3)])
			guard("update-pass(true)", func() { chk.C.VerifUpdateCRLs(true) })
			if r.Intn(2) == 0 {
				publish(s, "")
			}
		}
		steps.Add(1)
		time.Sleep(time.Duration(200+r.Intn(1500)) * time.Microsecond)
	}
}

// cleanupCall: role "cleanup".
func cleanupCall(chk *l2.Checker, cleanedUp *atomic.Bool) {
	guard("cleanup", func() { chk.Stop() })
	cleanedUp.Store(true)
}

// ocspWorkload: 16 goroutines over 8 certificates, 30 ms cache duration, two checker instances,
// responder flipping between good and revoked for half of the certificates.
func ocspWorkload(wl workload, dir string) {
	w := world.New(fmt.Sprintf("C13o-%d", wl.ID))
	defer w.Close()
	var mu sync.Mutex
	status := map[string]int{}
	w.OCSP.Set("/ocsp", world.Responder(w.Int, nil, nil, func(s *big.Int) world.OCSPStatus {
		mu.Lock()
		defer mu.Unlock()
		return world.OCSPStatus{Status: status[s.String()]}
	}))
	mk := func(d time.Duration) *repoocsp.OCSPRevocationChecker {
		c := &repoocsp.OCSPRevocationChecker{}
		_ = c.Provision(&config.OCSPConfig{OCSPAIAStrict: true, DefaultCacheDurationParsed: d, TrustedResponderCerts: []*x509.Certificate{}}, l2.DebugLogger())
		return c
	}
	checkers := []*repoocsp.OCSPRevocationChecker{mk(30 * time.Millisecond), mk(5 * time.Millisecond)}
	type oc struct {
		chain   []*x509.Certificate
		serial  *big.Int
		flips   bool
		revoked bool // for non-flipping certificates
	}
	var certs []oc
	for i := 0; i < 8; i++ {
		s := pki.NextSerial()
		c := oc{chain: w.Leaf(s, nil, []string{w.OCSP.URL("/ocsp")}), serial: s, flips: i%2 == 0, revoked: i%4 == 1}
		if c.revoked {
			status[s.String()] = ocsp.Revoked
		}
		certs = append(certs, c)
	}
	var stop atomic.Bool
	var wg sync.WaitGroup
	var n atomic.Int64
	for g := 0; g < wl.Goroutines; g++ {
		wg.Add(1)
		go func(g int) {
			defer wg.Done()
			r := rand.New(rand.NewSource(wl.Seed + int64(g)))
			for !stop.Load() {
				c := certs[r.Intn(len(certs))]
				chk := checkers[r.Intn(2)]
				var revoked bool
				var err error
				guard("ocsp-lookup", func() {
					st, e := chk.IsRevoked(c.chain[0], [][]*x509.Certificate{c.chain})
					err, revoked = e, st != nil && st.Revoked
				})
				n.Add(1)
				if err != nil {
					verdictError("ocsp lookup failed with a healthy responder: " + err.Error())
				} else if !c.flips && revoked != c.revoked {
					verdictError(fmt.Sprintf("ocsp verdict for a certificate whose status never changes: got revoked=%v", revoked))
				}
			}
		}(g)
	}
	// flipper + a cleanup/flush of one instance in the middle (shutdown of a sibling server block)
	end := time.Now().Add(time.Duration(wl.DurationMs) * time.Millisecond)
	r := rand.New(rand.NewSource(wl.Seed))
	flushed := false
	for time.Now().Before(end) {
		c := certs[r.Intn(len(certs))]
		if c.flips {
			mu.Lock()
			if status[c.serial.String()] == ocsp.Good {
				status[c.serial.String()] = ocsp.Revoked
			} else {
				status[c.serial.String()] = ocsp.Good
			}
			mu.Unlock()
		}
		if !flushed && time.Until(end) < time.Duration(wl.DurationMs/2)*time.Millisecond {
			flushed = true
			guard("ocsp-cleanup-of-other-instance", func() { _ = mk(time.Second).Cleanup() })
		}
		time.Sleep(2 * time.Millisecond)
	}
	stop.Store(true)
	wg.Wait()
	rep.Handshakes = n.Load()
}

// ------------------------------------------------------------------ parent side

var frameRe = regexp.MustCompile(`^\s+([^\s]+)\(\)\s*$`)

type raceReport struct {
	roles  [2]string
	frames [2]string
	text   string
}

func roleOf(stack []string) string {
	joined := strings.Join(stack, "\n")
	switch {
	case strings.Contains(joined, "main.handshakeLoop"):
		return "handshake"
	case strings.Contains(joined, "main.stepperLoop") && strings.Contains(joined, "UpdateCRL("):
		return "config-crl-update"
	case strings.Contains(joined, "main.stepperLoop"):
		return "update-pass"
	case strings.Contains(joined, "main.cleanupCall"):
		return "cleanup"
	case strings.Contains(joined, "main.ocspWorkload"):
		return "ocsp-lookup"
	case strings.Contains(joined, "initCRLUpdateTicker") || strings.Contains(joined, "updateCRLs"):
		return "ticker-update-pass"
	case strings.Contains(joined, "l2.Start") || strings.Contains(joined, "Provision"):
		return "provision"
	}
	return "other"
}

func firstRepoFrame(stack []string) string {
	for _, l := range stack {
		if strings.Contains(l, "caddy-revocation-validator/") && !strings.Contains(l, "verifhook") {
			l = strings.TrimSpace(l)
			l = strings.TrimSuffix(l, "()")
			return l[strings.LastIndex(l, "/")+1:]
		}
	}
	return ""
}

func parseRaceLogs(dir string) []raceReport {
	var out []raceReport
	files, _ := filepath.Glob(filepath.Join(dir, "race.*"))
	for _, f := range files {
		b, _ := os.ReadFile(f)
		for _, blk := range strings.Split(string(b), "==================") {
			if !strings.Contains(blk, "WARNING: DATA RACE") {
				continue
			}
			// split into the two access stacks (+ goroutine creation stacks)
			var sections [][]string
			var cur []string
			for _, l := range strings.Split(blk, "\n") {
				if strings.TrimSpace(l) == "" {
					if len(cur) > 0 {
						sections = append(sections, cur)
						cur = nil
					}
					continue
				}
				cur = append(cur, l)
			}
			if len(cur) > 0 {
				sections = append(sections, cur)
			}
			var access [][]string
			var creations [][]string
			for _, s := range sections {
				if strings.Contains(s[0], "WARNING: DATA RACE") && len(s) > 1 {
					s = s[1:]
				}
				h := s[0]
				switch {
				case strings.Contains(h, "Write at") || strings.Contains(h, "Read at") || strings.Contains(h, "Previous write at") || strings.Contains(h, "Previous read at"):
					access = append(access, s)
				case strings.Contains(h, "Goroutine") && strings.Contains(h, "created at"):
					creations = append(creations, s)
				}
			}
			if len(access) < 2 {
				continue
			}
			rr := raceReport{text: blk}
			for i := 0; i < 2; i++ {
				st := append([]string(nil), access[i]...)
				if i < len(creations) {
					st = append(st, creations[i]...)
				}
				rr.roles[i] = roleOf(st)
				rr.frames[i] = firstRepoFrame(access[i])
			}
			out = append(out, rr)
		}
	}
	return out
}

// analyseStall applies the deadlock criterion to a goroutine dump.
func analyseStall(dump string) (bool, string) {
	gs := strings.Split(dump, "\n\n")
	repoG, parked := 0, 0
	var culprit string
	for _, g := range gs {
		if !strings.Contains(g, "caddy-revocation-validator/") {
			continue
		}
		// ignore goroutines that only carry harness frames of the repo path? (harness is verif/harness)
		head := strings.SplitN(g, "\n", 2)[0]
		// an idle service loop (the goroutine's root function is a repository closure waiting in a
		// select / channel receive, e.g. the ticker loop) holds no lock taken further down and cannot
		// release anybody: it is neither evidence for nor against a deadlock
		if (strings.Contains(head, "select") || strings.Contains(head, "chan receive")) && strings.Count(g, "caddy-revocation-validator/") <= 2 && strings.Count(g, "\n") <= 6 {
			continue
		}
		repoG++
		blockedOnLock := strings.Contains(g, "sync.(*Mutex).Lock") || strings.Contains(g, "sync.(*RWMutex).Lock") || strings.Contains(g, "sync.(*RWMutex).RLock") || strings.Contains(g, "sync.(*WaitGroup).Wait")
		live := strings.Contains(head, "IO wait") || strings.Contains(head, "sleep") || strings.Contains(head, "running") || strings.Contains(head, "runnable") || strings.Contains(head, "select") || strings.Contains(head, "syscall")
		if blockedOnLock && !live {
			parked++
			if strings.Count(g, "entryLock") > 0 || culprit == "" {
				culprit = firstRepoFrame(strings.Split(g, "\n"))
			}
		}
	}
	if repoG > 0 && parked == repoG {
		return true, fmt.Sprintf("all %d goroutines inside the repository are parked on locks (first frame %s)", repoG, culprit)
	}
	return false, fmt.Sprintf("%d of %d repository goroutines parked on locks", parked, repoG)
}

func main() {
	if len(os.Args) >= 3 && os.Args[1] == "child" {
		childMain(os.Args[2])
		return
	}
	run := report.New("C13", "exploration")
	run.Rule("workload instances in child processes under the race detector with seeded yields at hook points: handshake storms (G in {4,16} goroutines, shared / distinct / mixed-with-configured CDP sets, both backends, both fetch modes, GOMAXPROCS in {2,16}) against a stepper doing update passes (forced and unforced), config-CRL updates, origin version changes and origin faults incl. bad signatures (state 'last refresh failed signature verification'), ending with Cleanup concurrent with the last handshakes; the real 50 ms ticker; cycles of Cleanup beginning while first downloads from a slow origin (90-210 ms) are in flight, for handshakes naming never-seen CDPs; OCSP lookups from 16 goroutines over 8 certificates with 30 ms / 5 ms cache lifetimes on two checker instances while statuses flip. Monitors: race reports with a repository frame (keyed by the pair of harness roles), every API call returns (20 s stall => goroutine dump => deadlock criterion), panics, verdicts inside the sound superset. non-trivial = instance that completed >= 200 calls with >= 2 distinct hook-order windows; distinct = workload descriptor")
	run.Assume("race detector reports only races the schedule produced", "deadlock criterion: every goroutine with a repository frame parked in Mutex/RWMutex/WaitGroup and none in IO wait / sleep / select / runnable")
	scratch, _ := report.Scratch("C13")
	rng := rand.New(rand.NewSource(run.Seed))
	var wls []workload
	add := func(w workload) {
		w.ID = len(wls)
		w.Seed = rng.Int63()
		wls = append(wls, w)
	}
	dur := 1800
	for _, b := range []string{"memory", "disk"} {
		for _, f := range []string{"actively", "background"} {
			for _, s := range []string{"shared", "distinct", "mixed-with-configured"} {
				add(workload{Kind: "crl-storm", Backend: b, Fetch: f, Goroutines: []int{4, 16}[len(wls)%2], Sets: s, Procs: []int{16, 2}[len(wls)%2], DurationMs: dur})
			}
			add(workload{Kind: "crl-ticker", Backend: b, Fetch: f, Goroutines: 8, Sets: "distinct", Procs: 16, DurationMs: dur})
		}
	}
	for _, b := range []string{"memory", "disk"} {
		for _, f := range []string{"actively", "background"} {
			add(workload{Kind: "crl-slow-first-load", Backend: b, Fetch: f, Goroutines: []int{3, 8}[len(wls)%2], Sets: "fresh-per-handshake", Procs: []int{16, 2}[len(wls)%2], DurationMs: dur})
		}
	}
	add(workload{Kind: "ocsp", Goroutines: 16, Procs: 16, DurationMs: dur})
	add(workload{Kind: "ocsp", Goroutines: 16, Procs: 2, DurationMs: dur})
	if run.Thorough() {
		base := append([]workload(nil), wls...)
		for rep := 0; rep < 14; rep++ {
			for _, w := range base {
				w.Goroutines = []int{4, 16, 8}[rng.Intn(3)]
				w.Procs = []int{2, 16, 4}[rng.Intn(3)]
				w.DurationMs = 2500
				add(w)
			}
		}
	}
	bin := os.Getenv("VERIF_ENGINE_BIN")
	if bin == "" {
		bin, _ = os.Executable()
	}
	type result struct {
		wl      workload
		rep     childReport
		races   []raceReport
		exit    int
		dir     string
		logTail string
	}
	results := make([]result, len(wls))
	sem := make(chan struct{}, 8)
	var wg sync.WaitGroup
	for i, wl := range wls {
		wg.Add(1)
		sem <- struct{}{}
		go func(i int, wl workload) {
			defer wg.Done()
			defer func() { <-sem }()
			dir := filepath.Join(scratch, fmt.Sprintf("w%03d", i))
			_ = os.MkdirAll(dir, 0755)
			b, _ := json.Marshal(wl)
			_ = os.WriteFile(filepath.Join(dir, "workload.json"), b, 0644)
			logf, _ := os.Create(filepath.Join(dir, "child.log"))
			cmd := exec.Command(bin, "child", dir)
			for _, e := range os.Environ() {
				if !strings.HasPrefix(e, "GORACE=") {
					cmd.Env = append(cmd.Env, e)
				}
			}
			cmd.Env = append(cmd.Env, "GORACE=halt_on_error=0 exitcode=0 log_path="+filepath.Join(dir, "race"), "GOTRACEBACK=all")
			cmd.Stdout, cmd.Stderr = logf, logf
			done := make(chan error, 1)
			_ = cmd.Start()
			go func() { done <- cmd.Wait() }()
			var err error
			select {
			case err = <-done:
			case <-time.After(90 * time.Second):
				_ = cmd.Process.Signal(syscall.SIGQUIT)
				select {
				case err = <-done:
				case <-time.After(10 * time.Second):
					_ = cmd.Process.Kill()
					err = <-done
				}
			}
			logf.Close()
			r := result{wl: wl, dir: dir}
			if ee, ok := err.(*exec.ExitError); ok {
				r.exit = ee.ExitCode()
			} else if err != nil {
				r.exit = -1
			}
			if rb, e := os.ReadFile(filepath.Join(dir, "report.json")); e == nil {
				_ = json.Unmarshal(rb, &r.rep)
			}
			r.races = parseRaceLogs(dir)
			lb, _ := os.ReadFile(filepath.Join(dir, "child.log"))
			sb, _ := os.ReadFile(filepath.Join(dir, "stderr.log"))
			tail := string(lb)
			if i := strings.Index(string(sb), "panic:"); i >= 0 {
				tail += "\n" + string(sb[i:min(len(sb), i+3000)])
			}
			if i := strings.Index(string(sb), "fatal error:"); i >= 0 {
				tail += "\n" + string(sb[i:min(len(sb), i+3000)])
			}
			if len(tail) > 4000 {
				tail = tail[:4000]
			}
			r.logTail = tail
			results[i] = r
		}(i, wl)
	}
	wg.Wait()

	raceKeys := map[string]int{}
	for _, r := range results {
		run.Eval(1)
		desc := r.wl.String()
		run.Count("api_calls_completed", r.rep.Calls)
		run.Count("handshakes", r.rep.Handshakes)
		run.Count("stepper_steps", r.rep.Steps)
		run.Count("handshakes_overlapping_cleanup", r.rep.CleanupOverlap)
		run.Count("race_reports", int64(len(r.races)))
		run.Count("cleanups_during_a_first_download", r.rep.SlowInflight)
		run.Count("distinct_hook_order_windows", int64(r.rep.HookOrderings))
		rp := func(extra map[string]any, files map[string][]byte) *report.Replay {
			m := map[string]any{"workload": r.wl, "report": r.rep, "exit": r.exit}
			for k, v := range extra {
				m[k] = v
			}
			return &report.Replay{Case: m, Files: files}
		}
		harnessRaces := 0
		for _, rr := range r.races {
			if rr.frames[0] == "" && rr.frames[1] == "" {
				harnessRaces++
				continue
			}
			roles := []string{rr.roles[0], rr.roles[1]}
			sort.Strings(roles)
			key := "race." + roles[0] + ".vs." + roles[1]
			raceKeys[key]++
			frames := []string{rr.frames[0], rr.frames[1]}
			sort.Strings(frames)
			run.Distinct("race_frame_pairs", key+" : "+frames[0]+" <-> "+frames[1])
			run.Violation(key, desc+": data race between "+frames[0]+" and "+frames[1], rp(map[string]any{"frames": frames}, map[string][]byte{"race.txt": []byte(rr.text)}))
		}
		if harnessRaces > 0 {
			run.Inconclusive(fmt.Sprintf("%d race reports without any repository frame (harness) in %s", harnessRaces, desc))
		}
		for _, p := range r.rep.Panics {
			what := strings.SplitN(p, ":", 2)[0]
			run.Violation("panic.during-"+what, desc+": "+trunc(p, 1500), rp(nil, nil))
		}
		for _, v := range r.rep.VerdictErrors {
			cls := "verdict"
			switch {
			case strings.Contains(v, "reported revoked"):
				cls = "verdict.unlisted-reported-revoked"
			case strings.Contains(v, "denied without strict"):
				cls = "verdict.unlisted-denied"
			case strings.Contains(v, "returned an error"):
				cls = "verdict.listed-lookup-error"
			case strings.Contains(v, "accepted after"):
				cls = "verdict.listed-accepted-after-in-force"
			case strings.Contains(v, "ocsp"):
				cls = "verdict.ocsp"
			case strings.Contains(v, "provision"):
				cls = "provision-failed"
			}
			run.Violation(cls+"."+r.wl.Kind, desc+": "+v, rp(nil, nil))
		}
		switch {
		case r.exit == 7:
			dump, _ := os.ReadFile(filepath.Join(r.dir, "stall.dump"))
			dead, why := analyseStall(string(dump))
			if dead {
				run.Violation("deadlock.during-"+strings.SplitN(r.rep.Stalled, "(", 2)[0], desc+": call '"+r.rep.Stalled+"' never returned; "+why, rp(map[string]any{"criterion": why}, map[string][]byte{"goroutines.txt": dump}))
			} else {
				run.Inconclusive("stall that does not meet the deadlock criterion in " + desc + ": " + why)
			}
		case r.exit != 0 || !r.rep.Finished:
			kind := "exit-" + fmt.Sprint(r.exit)
			switch {
			case strings.Contains(r.logTail, "concurrent map"):
				kind = "fatal-concurrent-map-access"
			case strings.Contains(r.logTail, "panic:"):
				kind = "unrecovered-panic"
			case strings.Contains(r.logTail, "fatal error:"):
				kind = "fatal-error"
			}
			run.Violation("process-crash."+kind+"."+r.wl.Kind, desc+": child process died: "+trunc(r.logTail, 2000), rp(nil, nil))
		default:
			if r.wl.Kind == "crl-slow-first-load" {
				if r.rep.SlowInflight >= 3 && len(r.races) == 0 {
					run.NonTrivial(desc)
				} else if r.rep.SlowInflight < 3 {
					run.Inconclusive(fmt.Sprintf("%s: only %d Cleanup calls began during a first download", desc, r.rep.SlowInflight))
				}
			} else if r.rep.Calls >= 200 && (r.rep.HookOrderings >= 2 || r.wl.Kind == "ocsp") && len(r.races) == 0 {
				run.NonTrivial(desc)
			}
		}
		if r.wl.ID%6 == 0 {
			run.Sample(map[string]any{"workload": desc, "calls": r.rep.Calls, "handshakes": r.rep.Handshakes, "steps": r.rep.Steps, "hook_order_windows": r.rep.HookOrderings, "race_reports": len(r.races), "handshakes_overlapping_cleanup": r.rep.CleanupOverlap})
		}
	}
	run.Set("race_report_keys", raceKeys)
	run.Finish(8)
}

func trunc(s string, n int) string {
	if len(s) > n {
		return s[:n]
	}
	return s
}
