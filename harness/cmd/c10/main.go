// c10: CDP strictness — strict denies until the CDP CRL is in force; lenient never denies
// (exploration of bounded histories against a reference in-force model; L2, stepped).
package main

import (
	"crypto/tls"
	"crypto/x509"
	"fmt"
	"math/rand"
	"net/http"
	"net/http/httptest"
	"os"
	"path/filepath"
	"strings"
	"sync"
	"sync/atomic"

	"verif/harness/lab/gen"
	"verif/harness/lab/l2"
	"verif/harness/lab/origin"
	"verif/harness/lab/report"
	"verif/harness/lab/sut"
	"verif/harness/lab/world"
)

var events = []string{"srv:down", "srv:garbage", "srv:badsig", "srv:good", "handshake", "refresh", "restart"}

type config struct {
	Set     string // http | https-untrusted | ldap | ldap+http | unparsable | refused+http | http-shared
	Fetch   string
	SigMode string
	Backend string
	Strict  bool
}

func (c config) String() string {
	return fmt.Sprintf("set=%s fetch=%s sig=%s backend=%s strict=%v", c.Set, c.Fetch, c.SigMode, c.Backend, c.Strict)
}

// slow sets cost 2 s of loader retries per load attempt
func slowSet(s string) bool { return s == "https-untrusted" || s == "refused+http" }

// reachable: does the set contain a URL from which a healthy server could be loaded at all
func reachable(set string) bool {
	return set == "http" || set == "ldap+http" || set == "refused+http" || set == "http-shared" || set == "http-port-sibling"
}

type model struct {
	inForce bool
	known   bool // the checker has seen the CDP set since its last start
	srv     string
}

func canLoad(c config, srv string) bool {
	if !reachable(c.Set) {
		return false
	}
	return srv == "good" || (srv == "badsig" && c.SigMode != "verify")
}

func main() {
	run := report.New("C10", "exploration")
	run.Rule("configs = CDP set{http, https-untrusted, ldap, ldap+http, unparsable URL, refused+http, http shared by two certificates, http with a loaded sibling at the same host and path on another port or at the same host and port with a path in another letter case (sampled, alternating)} x fetch mode x signature mode{verify,none} x backend x strict; histories over {server:=down|garbage|bad signature|good, handshake, refresh, restart} (+ for http/disk/strict five histories with a one-shot store-swap fault: the staged database vanishes before it is moved into place) starting with a server state: all of length <=3 (quick) / <=4 (thorough) plus seeded longer ones, sampled for the two slow sets; reference model tracks whether a CRL for the set can be in force; oracle: strict => a handshake is accepted only if the model allows 'in force' at that instant; lenient => an unlisted certificate is never denied; non-trivial = history with >=1 handshake whose verdict the model constrains (strict: accepted-and-allowed or denied-while-not-in-force; lenient: any); distinct = config + history")
	run.Assume("'down' = HTTP 500 (no loader retries); refused / TLS-untrusted locations are sampled because each attempt costs 2 s of loader retries", "background mode: a verdict racing with the triggered load may be either; the model allows both")
	scratch, _ := report.Scratch("C10")
	sut.QuietStderr(filepath.Join(scratch, "stderr.log"))
	var cfgs []config
	for _, set := range []string{"http", "https-untrusted", "ldap", "ldap+http", "unparsable", "refused+http", "http-shared", "http-port-sibling"} {
		for _, f := range []string{"actively", "background"} {
			for _, sm := range []string{"verify", "none"} {
				for _, b := range []string{"memory", "disk"} {
					for _, st := range []bool{true, false} {
						cfgs = append(cfgs, config{set, f, sm, b, st})
					}
				}
			}
		}
	}
	si, sn, isShard := report.Shard()
	if !isShard {
		run.RunShards(14, scratch)
		run.Set("configs", len(cfgs))
		if run.Counter("strict_accepted_after_load") < 20 {
			run.Inconclusive("too few histories in which a strict handshake was accepted after a load")
		}
		if run.Counter("swap_faults_fired") < 12 {
			run.Inconclusive("the injected store-swap fault fired too rarely")
		}
		run.Finish(300)
		return
	}
	// histories
	maxLen := 3
	if run.Thorough() {
		maxLen = 4
	}
	var hists [][]string
	var rec func(p []string)
	rec = func(p []string) {
		if len(p) > 0 {
			hists = append(hists, append([]string(nil), p...))
		}
		if len(p) == maxLen {
			return
		}
		for i, e := range events {
			if len(p) == 0 && i > 3 {
				continue
			}
			rec(append(p, e))
		}
	}
	rec(nil)
	rng := rand.New(rand.NewSource(run.Seed))
	nlong := 300
	if run.Thorough() {
		nlong = 2000
	}
	var long [][]string
	for i := 0; i < nlong; i++ {
		h := []string{events[rng.Intn(4)]}
		for j := 0; j < 4+rng.Intn(3); j++ {
			// bias towards handshakes
			if rng.Intn(3) == 0 {
				h = append(h, "handshake")
			} else {
				h = append(h, events[rng.Intn(len(events))])
			}
		}
		long = append(long, h)
	}

	w := world.New(fmt.Sprintf("C10-%d", si))
	defer w.Close()
	w.CRL.Fragment.Store(si%2 == 1)
	tlsSrv := httptest.NewUnstartedServer(http.HandlerFunc(func(rw http.ResponseWriter, r *http.Request) { rw.WriteHeader(200) }))
	tlsSrv.TLS = &tls.Config{}
	tlsSrv.StartTLS()
	defer tlsSrv.Close()
	refused := origin.RefusedURL("/r.crl")
	goodCRL := gen.SpecFor(w.Int, gen.Entries(rng, gen.Opts{N: 4, SerialWidth: 6})).Build(w.Int.Key).DER
	badSig := append([]byte(nil), goodCRL...)
	badSig[len(badSig)-1] ^= 1

	hn := 0
	for ci, c := range cfgs {
		if ci%sn != si {
			continue
		}
		var todo [][]string
		if c.Set == "http-port-sibling" {
			// sampled: 40 short histories + 3 long ones
			for i := 0; i < 40; i++ {
				todo = append(todo, hists[rng.Intn(len(hists))])
			}
			for i := 0; i < 3; i++ {
				todo = append(todo, long[rng.Intn(len(long))])
			}
		} else if slowSet(c.Set) {
			// sampled: 6 short histories + 2 long ones
			for i := 0; i < 6; i++ {
				todo = append(todo, hists[rng.Intn(len(hists))])
			}
			todo = append(todo, long[rng.Intn(len(long))])
		} else {
			todo = append(todo, hists...)
			for i := 0; i < len(long); i++ {
				if (i+ci)%len(cfgs)%7 == 0 {
					todo = append(todo, long[i])
				}
			}
		}
		if c.Set == "http" && c.Backend == "disk" && c.Strict {
			// a first load (or refresh) whose store swap fails after download, parse and signature check
			todo = append(todo, swapFaultHistories...)
		}
		for _, h := range todo {
			hn++
			runHistory(run, w, c, h, scratch, hn, goodCRL, badSig, tlsSrv.URL, refused)
		}
	}
	run.FinishShard()
}

// "swapfault" arms a one-shot fault: the staged database vanishes just before it is moved into
// place, so the next store swap fails (and is rolled back) after ~5 s of rename retries.
var swapFaultHistories = [][]string{
	{"srv:good", "swapfault", "handshake", "srv:down", "handshake", "srv:good", "handshake"},
	{"srv:garbage", "handshake", "srv:good", "swapfault", "handshake", "srv:garbage", "handshake", "srv:good", "handshake"},
	{"srv:good", "swapfault", "refresh", "handshake", "srv:down", "handshake", "restart", "handshake"},
	{"srv:good", "swapfault", "handshake", "srv:down", "refresh", "handshake", "srv:good", "refresh", "handshake"},
	{"srv:good", "handshake", "swapfault", "refresh", "srv:down", "handshake", "restart", "handshake"},
}

func runHistory(run *report.Run, w *world.World, c config, h []string, scratch string, hn int, goodCRL, badSig []byte, tlsURL, refused string) {
	wd := filepath.Join(scratch, fmt.Sprintf("wd%d", hn))
	_ = os.MkdirAll(wd, 0755)
	defer os.RemoveAll(wd)
	path := fmt.Sprintf("/h%d.crl", hn)
	url := w.CRL.URL(path)
	var cdp []string
	switch c.Set {
	case "http", "http-shared", "http-port-sibling":
		cdp = []string{url}
	case "https-untrusted":
		cdp = []string{tlsURL + path}
	case "ldap":
		cdp = []string{"ldap://ldap.example.org/cn=crl" + fmt.Sprint(hn)}
	case "ldap+http":
		cdp = []string{"ldap://ldap.example.org/cn=crl" + fmt.Sprint(hn), url}
	case "unparsable":
		cdp = []string{"http://bad host" + fmt.Sprint(hn) + "/%zz.crl"}
	case "refused+http":
		cdp = []string{refused + fmt.Sprint(hn), url}
	}
	setSrv := func(s string) {
		switch s {
		case "down":
			w.CRL.Set(path, origin.Status(500, []byte("<html>down</html>")))
		case "garbage":
			w.CRL.Set(path, origin.Garbage())
		case "badsig":
			w.CRL.Set(path, origin.Good(badSig))
		case "good":
			w.CRL.Set(path, origin.Good(goodCRL))
		}
	}
	chk, err := l2.Start(l2.Opts{WorkDir: wd, Storage: c.Backend, SigMode: c.SigMode, Fetch: c.Fetch, Strict: c.Strict})
	if err != nil {
		run.Violation("provision-failed", c.String()+": "+err.Error(), nil)
		return
	}
	defer chk.Stop()
	m := model{srv: "down"}
	setSrv("down")
	if c.Set == "http-port-sibling" {
		// a CRL of the same CA at the same host and path but another port is in force before the
		// history starts; it says nothing about the distribution point under test
		// (odd histories: the sibling is at the same host and port, its path differs in letter case only)
		sibURL := w.OCSP.URL(path)
		if hn%2 == 1 {
			sibPath := strings.ToUpper(path)
			w.CRL.Set(sibPath, origin.Good(goodCRL))
			sibURL = w.CRL.URL(sibPath)
			run.Count("case_sibling_histories", 1)
		} else {
			w.OCSP.Set(path, origin.Good(goodCRL))
		}
		sib := w.Leaf(gen.SerialOfWidth(rand.New(rand.NewSource(int64(hn))), 12, false), []string{sibURL}, nil)
		_, _ = chk.Ask(sib) // background mode: the first question only triggers the load
		if _, err := chk.Ask(sib); err != nil && c.Strict {
			run.Inconclusive("sibling distribution point on the other port could not be loaded: " + err.Error())
			return
		}
	}
	var armed atomic.Bool
	var fired atomic.Int64
	if c.Backend == "disk" {
		// the live store directories are those that exist when the download has finished (the entry and
		// its store were created before, the staging store is created afterwards); at 'new_closed' every
		// other directory is the staged database and vanishes
		var snapMu sync.Mutex
		live := map[string]bool{}
		l2.SetExtraHook(func(name string) {
			if strings.HasSuffix(name, ".downloaded") {
				snapMu.Lock()
				live = map[string]bool{}
				des, _ := os.ReadDir(wd)
				for _, de := range des {
					if de.IsDir() {
						live[de.Name()] = true
					}
				}
				snapMu.Unlock()
			}
			if name == "leveldb.update.new_closed" && armed.CompareAndSwap(true, false) {
				snapMu.Lock()
				des, _ := os.ReadDir(wd)
				for _, de := range des {
					if de.IsDir() && !live[de.Name()] {
						_ = os.RemoveAll(filepath.Join(wd, de.Name()))
					}
				}
				snapMu.Unlock()
				fired.Add(1)
			}
		})
		defer l2.SetExtraHook(nil)
	}
	desc := c.String() + " history=" + strings.Join(h, ",")
	var trace []string
	constrained := 0
	certN := 0
	run.Eval(1)
	for step, ev := range h {
		firedBefore := fired.Load()
		switch {
		case ev == "swapfault":
			armed.Store(true)
			trace = append(trace, ev)
		case strings.HasPrefix(ev, "srv:"):
			m.srv = strings.TrimPrefix(ev, "srv:")
			setSrv(m.srv)
			trace = append(trace, ev)
		case ev == "refresh":
			chk.Refresh()
			if fired.Load() != firedBefore {
				run.Count("swap_faults_fired", 1)
				trace = append(trace, "(swap failed)")
			} else if m.known && !m.inForce && canLoad(c, m.srv) {
				m.inForce = true
			}
			trace = append(trace, ev)
		case ev == "restart":
			if err := chk.Restart(); err != nil {
				run.Violation("restart-failed", desc+": "+err.Error(), nil)
				return
			}
			m.known = false
			if c.Backend == "memory" {
				m.inForce = false
			}
			trace = append(trace, ev)
		case ev == "handshake":
			certN++
			chain := w.Leaf(gen.SerialOfWidth(rand.New(rand.NewSource(int64(hn*100+certN))), 11, false), cdp, nil)
			before := m.inForce
			_, err := chk.Ask(chain)
			swapFailed := fired.Load() != firedBefore
			if swapFailed {
				run.Count("swap_faults_fired", 1)
				trace = append(trace, "(swap failed)")
			}
			// what the model allows for this verdict
			allowed := before
			if c.Fetch == "actively" {
				if !m.inForce && canLoad(c, m.srv) && !swapFailed {
					m.inForce = true
				}
				allowed = m.inForce
			} else {
				if !m.known && canLoad(c, m.srv) {
					allowed = true // races with the triggered background load
					if !swapFailed {
						m.inForce = true // Ask waited for the triggered pass
					}
				}
			}
			m.known = true
			verdict := "accepted"
			if err != nil {
				verdict = "denied"
			}
			trace = append(trace, fmt.Sprintf("handshake→%s", verdict))
			rp := &report.Replay{Case: map[string]any{"config": c.String(), "history": h, "trace": trace, "step": step, "error": fmt.Sprint(err)}}
			if c.Strict {
				if err == nil && !allowed {
					key := fmt.Sprintf("strict.accepted-while-not-in-force.%s.%s.after-%s", c.Set, c.Fetch, lastNonHandshake(h[:step]))
					run.Violation(key, desc+" step "+fmt.Sprint(step)+": accepted although no CRL for the CDP set can be in force; trace "+strings.Join(trace, " "), rp)
					return
				}
				if err == nil {
					run.Count("strict_accepted_after_load", 1)
					constrained++
				} else if !before && !m.inForce {
					run.Count("strict_denied_while_not_in_force", 1)
					constrained++
				} else {
					run.Count("strict_denied_although_in_force_by_reference", 1)
				}
			} else {
				if err != nil {
					key := fmt.Sprintf("lenient.denied.%s.%s.srv-%s", c.Set, c.Fetch, m.srv)
					run.Violation(key, desc+" step "+fmt.Sprint(step)+": an unlisted certificate was denied without crl_cdp_strict: "+err.Error()+"; trace "+strings.Join(trace, " "), rp)
					return
				}
				constrained++
			}
		}
	}
	if constrained > 0 {
		run.NonTrivial(desc)
	}
	if hn%400 == 1 {
		run.Sample(map[string]any{"config": c.String(), "trace": trace})
	}
	_ = x509.Certificate{}
}

func lastNonHandshake(h []string) string {
	for i := len(h) - 1; i >= 0; i-- {
		if h[i] != "handshake" {
			return strings.ReplaceAll(h[i], ":", "-")
		}
	}
	return "start"
}
