// c11: precision — only entries of CRLs in force, under the same issuer, can revoke
// (static neighbour/issuer probes + histories of rejected/accepted loads, refreshes, restarts).
package main

import (
	"crypto/x509"
	"fmt"
	"math/big"
	"math/rand"
	"os"
	"path/filepath"
	"strings"

	"verif/harness/lab/crlgen"
	"verif/harness/lab/der"
	"verif/harness/lab/gen"
	"verif/harness/lab/l2"
	"verif/harness/lab/origin"
	"verif/harness/lab/pki"
	"verif/harness/lab/report"
	"verif/harness/lab/sut"
	"verif/harness/lab/world"
)

// neighbours of a listed serial that are different numbers.
func neighbours(s *big.Int) []*big.Int {
	var out []*big.Int
	add := func(v *big.Int) {
		if v.Sign() > 0 && v.Cmp(s) != 0 && len(v.Bytes()) <= 20 {
			out = append(out, v)
		}
	}
	add(new(big.Int).Add(s, big.NewInt(1)))
	add(new(big.Int).Sub(s, big.NewInt(1)))
	add(new(big.Int).Lsh(s, 8))
	add(new(big.Int).Rsh(s, 8))
	add(new(big.Int).Add(new(big.Int).Lsh(s, 8), big.NewInt(1)))
	b := s.Bytes()
	if len(b) > 1 {
		add(new(big.Int).SetBytes(b[1:])) // leading byte stripped
		add(new(big.Int).SetBytes(b[:len(b)-1]))
		add(new(big.Int).SetBytes(append([]byte{1}, b...)))
	}
	// two's complement sign variant: same bytes with the top bit toggled
	tb := append([]byte(nil), b...)
	tb[0] ^= 0x80
	add(new(big.Int).SetBytes(tb))
	// decimal prefixes / suffixes
	d := s.String()
	if len(d) > 1 {
		if v, ok := new(big.Int).SetString(d[:len(d)-1], 10); ok {
			add(v)
		}
		if v, ok := new(big.Int).SetString(d[1:], 10); ok {
			add(v)
		}
	}
	if v, ok := new(big.Int).SetString(d+"0", 10); ok {
		add(v)
	}
	if v, ok := new(big.Int).SetString("1"+d, 10); ok {
		add(v)
	}
	return out
}

func main() {
	run := report.New("C11", "exploration")
	run.Rule("(A) static: a configured CRL of issuer X lists serials of width 1..20; probes = the same serials under other issuers (different DN, swapped RDN order, name with '_1' suffix, prefix/suffix names) and numeric/byte/decimal neighbours of every listed serial under X; (A2) an indirect CRL whose entries name another certificate issuer; (A3) lists forged by a client certificate of the CA (client extensions {bc+ku, no basicConstraints, no keyUsage, neither} x AKI {absent, client's, CA's key id} x issuer name {CA, client}) served at a CDP shared with other certificates of the CA, which must stay accepted; (A4) a configured list replaced by its successor while the validator is down: serials only the superseded list named are accepted once Provision has returned; (A5) lists naming an issuing CA whose keyUsage lacks cRLSign, signed with a foreign key or its own; (A6) issuer names that differ by trailing digits with serials that complete each other; (B) histories of length <=3 (quick) / <=4 (thorough) over {rejected load: bad signature | parse error after k entries | unhandled critical extension, accepted load A, accepted load B (removes and adds entries), restart} on both backends, after every event every serial ever published is probed; oracle: a probe not in the last accepted list (under its own issuer) must be accepted; non-trivial = case in which a listed control probe was rejected (the CRL really is in force) or a rejected document's serial was probed; distinct = case descriptor")
	run.Assume("lenient CDP mode, healthy origin, signature mode verify", "names differing only in ASN.1 string type or case are the same name under RFC 5280 and are not used as 'other issuer'")
	scratch, _ := report.Scratch("C11")
	sut.QuietStderr(filepath.Join(scratch, "stderr.log"))
	si, sn, isShard := report.Shard()
	if !isShard {
		run.RunShards(12, scratch)
		run.Finish(100)
		return
	}
	rng := rand.New(rand.NewSource(run.Seed*7919 + int64(si)))
	w := world.New(fmt.Sprintf("C11-%d", si))
	defer w.Close()
	job := 0
	mine := func() bool { job++; return job%sn == si }

	// ------------------------------------------------------------------ (A) static
	cn, o, c := "2.5.4.3", "2.5.4.10", "2.5.4.6"
	xName := der.Name([]der.ATV{{c, der.TagPrintable, "DE"}}, []der.ATV{{o, der.TagUTF8String, "Org"}}, []der.ATV{{cn, der.TagUTF8String, "CA"}})
	others := map[string][]byte{
		"different-dn":   der.Name([]der.ATV{{c, der.TagPrintable, "DE"}}, []der.ATV{{o, der.TagUTF8String, "Org"}}, []der.ATV{{cn, der.TagUTF8String, "Other CA"}}),
		"swapped-rdns":   der.Name([]der.ATV{{o, der.TagUTF8String, "Org"}}, []der.ATV{{c, der.TagPrintable, "DE"}}, []der.ATV{{cn, der.TagUTF8String, "CA"}}),
		"suffix-_1":      der.Name([]der.ATV{{c, der.TagPrintable, "DE"}}, []der.ATV{{o, der.TagUTF8String, "Org"}}, []der.ATV{{cn, der.TagUTF8String, "CA_1"}}),
		"prefix-name":    der.Name([]der.ATV{{c, der.TagPrintable, "DE"}}, []der.ATV{{o, der.TagUTF8String, "Org"}}, []der.ATV{{cn, der.TagUTF8String, "C"}}),
		"fewer-rdns":     der.Name([]der.ATV{{o, der.TagUTF8String, "Org"}}, []der.ATV{{cn, der.TagUTF8String, "CA"}}),
		"multi-valued":   der.Name([]der.ATV{{c, der.TagPrintable, "DE"}}, []der.ATV{{o, der.TagUTF8String, "Org"}, {cn, der.TagUTF8String, "CA"}}),
		"comma-in-value": der.Name([]der.ATV{{c, der.TagPrintable, "DE"}}, []der.ATV{{cn, der.TagUTF8String, "Org,CN=CA"}}),
	}
	for _, backend := range []string{"memory", "disk"} {
		if !mine() {
			continue
		}
		x := w.Root.Issue(pki.CertOpts{RawSubject: xName, IsCA: true})
		var entries []crlgen.Entry
		for wd := 1; wd <= 21; wd++ {
			for _, hi := range []bool{false, true} {
				if wd == 21 && !hi {
					continue
				}
				entries = append(entries, crlgen.Entry{Serial: gen.SerialOfWidth(rng, wd, hi), Date: gen.BaseTime})
			}
		}
		entries = append(entries, crlgen.Entry{Serial: big.NewInt(1), Date: gen.BaseTime}, crlgen.Entry{Serial: big.NewInt(10), Date: gen.BaseTime}, crlgen.Entry{Serial: big.NewInt(256), Date: gen.BaseTime})
		// negative serials (INTEGER with the top bit set and no leading zero octet, as some CAs emit):
		// they must not revoke the certificate whose serial is the absolute value
		var negatives []crlgen.Entry
		for _, v := range []*big.Int{big.NewInt(-5), big.NewInt(-128), big.NewInt(-70000), new(big.Int).Neg(gen.SerialOfWidth(rng, 16, false))} {
			negatives = append(negatives, crlgen.Entry{Serial: v, Date: gen.BaseTime})
		}
		listed := map[string]bool{}
		for _, e := range entries {
			listed[e.Serial.String()] = true
		}
		allEntries := append(append([]crlgen.Entry(nil), entries...), negatives...)
		file := filepath.Join(scratch, "static-"+backend+".crl")
		_ = os.WriteFile(file, gen.SpecFor(x, allEntries).Build(x.Key).DER, 0644)
		wd := filepath.Join(scratch, "wd-static-"+backend)
		_ = os.MkdirAll(wd, 0755)
		chk, err := l2.Start(l2.Opts{WorkDir: wd, Storage: backend, SigMode: "verify", Fetch: "actively", CRLFiles: []string{file}, Trusted: []*x509.Certificate{x.Cert}})
		if err != nil {
			run.Violation("static.provision-failed", err.Error(), nil)
			continue
		}
		controls := 0
		for _, e := range entries {
			leaf := x.Leaf(e.Serial, nil, nil)
			rev, err := chk.Ask([]*x509.Certificate{leaf, x.Cert, w.Root.Cert})
			if err == nil && rev {
				controls++
			}
		}
		run.Count("listed_control_probes_rejected", int64(controls))
		if controls != len(entries) {
			run.Inconclusive(fmt.Sprintf("static/%s: only %d of %d listed control probes were rejected (soundness is C01's business)", backend, controls, len(entries)))
		}
		// other issuers, same serials
		for name, raw := range others {
			ca := w.Root.Issue(pki.CertOpts{RawSubject: raw, IsCA: true})
			for _, e := range entries {
				leaf := ca.Leaf(e.Serial, nil, nil)
				rev, err := chk.Ask([]*x509.Certificate{leaf, ca.Cert, w.Root.Cert})
				run.Eval(1)
				desc := fmt.Sprintf("static backend=%s other-issuer=%s serial=%s", backend, name, e.Serial)
				if err != nil || rev {
					run.Violation("other-issuer."+name+"."+backend, desc+": certificate of another issuer is affected by a CRL entry with the same serial (err="+fmt.Sprint(err)+")", &report.Replay{Case: desc})
					continue
				}
				if controls > 0 {
					run.NonTrivial(desc)
				}
			}
		}
		// absolute values of listed negative serials
		for _, e := range negatives {
			abs := new(big.Int).Abs(e.Serial)
			if listed[abs.String()] {
				continue
			}
			leaf := x.Leaf(abs, nil, nil)
			rev, err := chk.Ask([]*x509.Certificate{leaf, x.Cert, w.Root.Cert})
			run.Eval(1)
			desc := fmt.Sprintf("static backend=%s listed-negative=%s probe=%s", backend, e.Serial, abs)
			if err != nil || rev {
				run.Violation("sign-variant-serial."+backend, desc+": the certificate whose serial is the absolute value of a listed negative serial is reported revoked", &report.Replay{Case: desc})
				continue
			}
			if controls > 0 {
				run.NonTrivial(desc)
			}
		}
		// neighbours under the same issuer
		for _, e := range entries {
			for _, nb := range neighbours(e.Serial) {
				if listed[nb.String()] {
					continue
				}
				leaf := x.Leaf(nb, nil, nil)
				rev, err := chk.Ask([]*x509.Certificate{leaf, x.Cert, w.Root.Cert})
				run.Eval(1)
				desc := fmt.Sprintf("static backend=%s listed=%s neighbour=%s", backend, e.Serial, nb)
				if err != nil || rev {
					run.Violation("neighbour-serial."+backend, desc+": an unlisted serial near a listed one is reported revoked", &report.Replay{Case: desc})
					continue
				}
				if controls > 0 {
					run.NonTrivial(desc)
				}
			}
		}
		chk.Stop()
		_ = os.RemoveAll(wd)
	}

	// ------------------------------------------------------------------ (A2) indirect CRL
	// A CRL that declares itself indirect (critical issuingDistributionPoint with indirectCRL) and
	// whose entries name another certificate issuer must never revoke certificates of the CRL
	// issuer itself: either it is rejected (unimplemented critical extension) or interpreted fully.
	for _, backend := range []string{"memory", "disk"} {
		if !mine() {
			continue
		}
		otherCA := der.Name([]der.ATV{{cn, der.TagUTF8String, "Some other CA"}})
		certIssuer := der.Ext("2.5.29.29", true, der.Seq(der.TLV(0xa4, otherCA)))
		var es []crlgen.Entry
		for i := 0; i < 6; i++ {
			e := crlgen.Entry{Serial: gen.SerialOfWidth(rng, 6, false), Date: gen.BaseTime}
			if i%2 == 0 {
				e.Exts = [][]byte{certIssuer}
			}
			es = append(es, e)
		}
		sp := gen.SpecFor(w.Int, es)
		sp.Exts = append(sp.Exts, der.Ext("2.5.29.28", true, der.Seq(der.ImplicitPrim(4, []byte{0xff}))))
		path := "/indirect-" + backend + ".crl"
		w.CRL.Set(path, origin.Good(sp.Build(w.Int.Key).DER))
		wd := filepath.Join(scratch, "wd-indirect-"+backend)
		_ = os.MkdirAll(wd, 0755)
		chk, err := l2.Start(l2.Opts{WorkDir: wd, Storage: backend, SigMode: "verify", Fetch: "actively"})
		if err != nil {
			run.Violation("indirect.provision-failed", err.Error(), nil)
			continue
		}
		for i, e := range es {
			rev, err := chk.Ask(w.Leaf(e.Serial, []string{w.CRL.URL(path)}, nil))
			run.Eval(1)
			desc := fmt.Sprintf("indirect-crl backend=%s entry=%d names-other-issuer=%v", backend, i, i%2 == 0)
			if i%2 == 0 && (rev || err != nil) {
				run.Violation("indirect-crl.entry-of-other-issuer-revokes-crl-issuers-certificate."+backend, desc+": a certificate of the CRL issuer is reported revoked by an entry that names another certificate issuer", &report.Replay{Case: desc})
				continue
			}
			run.NonTrivial(desc)
		}
		chk.Stop()
		_ = os.RemoveAll(wd)
	}

	// ------------------------------------------------------------------ (A3) list forged by a client
	// A client certificate of the CA serves, at its own CDP, a list that names the CA as issuer but is
	// signed with the client's key (authorityKeyIdentifier absent / the client's / the CA's key id).
	// Certificates of the CA that share the CDP and appear in that list are not revoked by anyone
	// entitled to: they must stay accepted.
	for _, backend := range []string{"memory", "disk"} {
		if !mine() {
			continue
		}
		wd := filepath.Join(scratch, "wd-forged-"+backend)
		_ = os.MkdirAll(wd, 0755)
		chk, err := l2.Start(l2.Opts{WorkDir: wd, Storage: backend, SigMode: "verify", Fetch: "actively"})
		if err != nil {
			run.Violation("forged.provision-failed", err.Error(), nil)
			continue
		}
		n := 0
		for _, shape := range []string{"bc+ku", "no-bc", "no-ku", "no-bc-no-ku"} {
			for _, aki := range []string{"absent", "client-ski", "ca-ski"} {
				for _, named := range []string{"ca", "client"} {
					n++
					path := fmt.Sprintf("/forged-%s-%d.crl", backend, n)
					url := w.CRL.URL(path)
					attacker := w.Int.Issue(pki.CertOpts{CN: fmt.Sprintf("c11 forging client %s %d", backend, n), CDP: []string{url},
						NoBasicConstraints: strings.Contains(shape, "no-bc"), NoKeyUsage: strings.Contains(shape, "no-ku")})
					var victims []*big.Int
					var es []crlgen.Entry
					for i := 0; i < 3; i++ {
						v := gen.SerialOfWidth(rng, 9, false)
						victims = append(victims, v)
						es = append(es, crlgen.Entry{Serial: v, Date: gen.BaseTime})
					}
					sp := gen.SpecFor(attacker, es)
					if named == "ca" {
						sp.IssuerRaw = w.Int.Cert.RawSubject
					}
					sp.Exts = [][]byte{crlgen.CRLNumberExt(big.NewInt(3))}
					switch aki {
					case "client-ski":
						sp.Exts = append(sp.Exts, crlgen.AKIKeyID(attacker.Cert.SubjectKeyId))
					case "ca-ski":
						sp.Exts = append(sp.Exts, crlgen.AKIKeyID(w.Int.Cert.SubjectKeyId))
					}
					w.CRL.Set(path, origin.Good(sp.Build(attacker.Key).DER))
					desc := fmt.Sprintf("forged-by-client backend=%s client-extensions=%s aki=%s list-issuer-name=%s", backend, shape, aki, named)
					// the forging client presents itself first, so its chain is the one the list is checked against
					_, _ = chk.Ask([]*x509.Certificate{attacker.Cert, w.Int.Cert, w.Root.Cert})
					bad := false
					for _, v := range victims {
						rev, err := chk.Ask(w.Leaf(v, []string{url}, nil))
						run.Eval(1)
						if rev || err != nil {
							bad = true
							run.Violation("forged-by-client.revokes-certificate-of-the-ca."+shape+".aki-"+aki+".named-"+named,
								fmt.Sprintf("%s: serial %s of the CA is reported revoked (err=%v) by a list signed with a client certificate's key", desc, v, err), &report.Replay{Case: desc})
							break
						}
					}
					if !bad {
						run.NonTrivial(desc)
					}
				}
			}
		}
		chk.Stop()
		_ = os.RemoveAll(wd)
	}

	// ------------------------------------------------------------------ (A4) configured list superseded while down
	// A configured CRL (crl_urls / crl_files) is replaced by its successor while the validator is not
	// running. When Provision has returned, the serials that only the superseded list named must be
	// accepted (the configured list in force is the published one), on both backends.
	for _, backend := range []string{"memory", "disk"} {
		for _, src := range []string{"crl_urls", "crl_files"} {
			if !mine() {
				continue
			}
			common := gen.Entries(rng, gen.Opts{N: 2, SerialWidth: 7})
			onlyA := gen.Entries(rng, gen.Opts{N: 3, SerialWidth: 8})
			onlyB := gen.Entries(rng, gen.Opts{N: 3, SerialWidth: 9})
			docA := gen.SpecFor(w.Int, append(append([]crlgen.Entry(nil), common...), onlyA...)).Build(w.Int.Key).DER
			spB := gen.SpecFor(w.Int, append(append([]crlgen.Entry(nil), common...), onlyB...))
			spB.Exts = [][]byte{crlgen.AKIKeyID(w.Int.Cert.SubjectKeyId), crlgen.CRLNumberExt(big.NewInt(8))}
			docB := spB.Build(w.Int.Key).DER
			path := fmt.Sprintf("/superseded-%s-%s.crl", backend, src)
			file := filepath.Join(scratch, fmt.Sprintf("superseded-%s.crl", backend))
			wd := filepath.Join(scratch, "wd-superseded-"+backend+"-"+src)
			_ = os.MkdirAll(wd, 0755)
			opts := l2.Opts{WorkDir: wd, Storage: backend, SigMode: "verify", Fetch: "actively", Trusted: []*x509.Certificate{w.Int.Cert}}
			if src == "crl_urls" {
				w.CRL.Set(path, origin.Good(docA))
				opts.CRLUrls = []string{w.CRL.URL(path)}
			} else {
				_ = os.WriteFile(file, docA, 0644)
				opts.CRLFiles = []string{file}
			}
			desc := fmt.Sprintf("configured-list-superseded-while-down backend=%s source=%s", backend, src)
			chk, err := l2.Start(opts)
			if err != nil {
				run.Violation("superseded.provision-failed", desc+": "+err.Error(), nil)
				continue
			}
			revA, _ := chk.Ask(w.Leaf(onlyA[0].Serial, nil, nil))
			chk.Stop()
			if src == "crl_urls" {
				w.CRL.Set(path, origin.Good(docB))
			} else {
				_ = os.WriteFile(file, docB, 0644)
			}
			chk2, err := l2.StartNoWait(opts)
			if err != nil {
				run.Violation("superseded.provision-failed-after-restart", desc+": "+err.Error(), nil)
				continue
			}
			bad := false
			for _, e := range onlyA {
				rev, err := chk2.Ask(w.Leaf(e.Serial, nil, nil))
				run.Eval(1)
				if rev || err != nil {
					bad = true
					run.Violation("superseded.entry-of-superseded-configured-list-revokes."+backend+"."+src, fmt.Sprintf("%s: serial %s is only in the list that was replaced while the validator was down, yet it is reported revoked (err=%v) after Provision returned", desc, e.Serial, err), &report.Replay{Case: desc})
					break
				}
			}
			revB, _ := chk2.Ask(w.Leaf(onlyB[0].Serial, nil, nil))
			chk2.Stop()
			_ = os.RemoveAll(wd)
			if !bad && revA && revB {
				run.NonTrivial(desc)
			}
		}
	}

	// ------------------------------------------------------------------ (A5) CA that may not sign CRLs
	// The issuing CA's keyUsage lacks cRLSign, so no list under its name can be verified by it. A list
	// naming it (AKI = its key identifier or absent), signed with a foreign key or even with its own
	// key, must not revoke its certificates.
	for _, backend := range []string{"memory", "disk"} {
		if !mine() {
			continue
		}
		noSign := w.Root.Issue(pki.CertOpts{CN: "C11 issuing CA without cRLSign " + backend, IsCA: true, KeyUsage: x509.KeyUsageCertSign | x509.KeyUsageDigitalSignature})
		foreign := pki.NewRoot(pki.CertOpts{CN: "C11 foreign key"})
		wd := filepath.Join(scratch, "wd-nosign-"+backend)
		_ = os.MkdirAll(wd, 0755)
		chk, err := l2.Start(l2.Opts{WorkDir: wd, Storage: backend, SigMode: "verify", Fetch: "actively"})
		if err != nil {
			run.Violation("nosign.provision-failed", err.Error(), nil)
			continue
		}
		n := 0
		for _, signer := range []string{"foreign-key", "own-key"} {
			for _, aki := range []string{"keyid", "absent"} {
				n++
				path := fmt.Sprintf("/nosign-%s-%d.crl", backend, n)
				url := w.CRL.URL(path)
				var es []crlgen.Entry
				for i := 0; i < 3; i++ {
					es = append(es, crlgen.Entry{Serial: gen.SerialOfWidth(rng, 9, false), Date: gen.BaseTime})
				}
				sp := gen.SpecFor(noSign, es)
				if aki == "absent" {
					sp.Exts = [][]byte{crlgen.CRLNumberExt(big.NewInt(2))}
				}
				key := foreign.Key
				if signer == "own-key" {
					key = noSign.Key
				}
				sp.Alg = crlgen.AlgFor(key)
				w.CRL.Set(path, origin.Good(sp.Build(key).DER))
				desc := fmt.Sprintf("ca-without-crlsign backend=%s list-signed-with=%s aki=%s", backend, signer, aki)
				bad := false
				for _, e := range es {
					leaf := noSign.Leaf(e.Serial, []string{url}, nil)
					rev, err := chk.Ask([]*x509.Certificate{leaf, noSign.Cert, w.Root.Cert})
					run.Eval(1)
					if rev || err != nil {
						bad = true
						run.Violation("ca-without-crlsign.list-revokes."+signer+".aki-"+aki, fmt.Sprintf("%s: serial %s is reported revoked (err=%v) by a list nobody entitled has signed", desc, e.Serial, err), &report.Replay{Case: desc})
						break
					}
				}
				if !bad {
					run.NonTrivial(desc)
				}
			}
		}
		chk.Stop()
		_ = os.RemoveAll(wd)
	}

	// ------------------------------------------------------------------ (A6) names ending in digits
	// Issuer names that differ only by trailing digits, with serials that complete each other: the
	// pair (name "… CA 1", serial 23) is listed; ("… CA 12", 3), ("… CA 12", 34) and ("… CA 123", 4)
	// are other certificates.
	for _, backend := range []string{"memory", "disk"} {
		if !mine() {
			continue
		}
		mkCA := func(cnv string) *pki.CA {
			return w.Root.Issue(pki.CertOpts{RawSubject: der.Name([]der.ATV{{cn, der.TagUTF8String, cnv}}), IsCA: true})
		}
		p1 := mkCA("Plant CA 1")
		var es []crlgen.Entry
		for _, v := range []int64{23, 234, 5, 1000} {
			es = append(es, crlgen.Entry{Serial: big.NewInt(v), Date: gen.BaseTime})
		}
		path := "/digits-" + backend + ".crl"
		w.CRL.Set(path, origin.Good(gen.SpecFor(p1, es).Build(p1.Key).DER))
		wd := filepath.Join(scratch, "wd-digits-"+backend)
		_ = os.MkdirAll(wd, 0755)
		chk, err := l2.Start(l2.Opts{WorkDir: wd, Storage: backend, SigMode: "verify", Fetch: "actively", CRLUrls: []string{w.CRL.URL(path)}, Trusted: []*x509.Certificate{p1.Cert}})
		if err != nil {
			run.Violation("digit-names.provision-failed", err.Error(), nil)
			continue
		}
		ctrl, _ := chk.Ask([]*x509.Certificate{p1.Leaf(big.NewInt(23), nil, nil), p1.Cert, w.Root.Cert})
		for _, pr := range []struct {
			cnv    string
			serial int64
		}{{"Plant CA 12", 3}, {"Plant CA 12", 34}, {"Plant CA 123", 4}, {"Plant CA 11", 0}, {"Plant CA 110", 0}, {"Plant CA ", 123}} {
			ca := mkCA(pr.cnv)
			desc := fmt.Sprintf("digit-names backend=%s listed=(Plant CA 1, 23|234|5|1000) probe=(%q, %d)", backend, pr.cnv, pr.serial)
			rev, err := chk.Ask([]*x509.Certificate{ca.Leaf(big.NewInt(pr.serial), nil, nil), ca.Cert, w.Root.Cert})
			run.Eval(1)
			if rev || err != nil {
				run.Violation("digit-names.other-issuers-certificate-revoked."+backend, fmt.Sprintf("%s: reported revoked (err=%v)", desc, err), &report.Replay{Case: desc})
				continue
			}
			if ctrl {
				run.NonTrivial(desc)
			}
		}
		chk.Stop()
		_ = os.RemoveAll(wd)
	}

	// ------------------------------------------------------------------ (B) histories
	letters := []string{"rej-badsig", "rej-parse", "rej-critical", "acc-A", "acc-B", "restart"}
	maxLen := 3
	if run.Thorough() {
		maxLen = 4
	}
	var hists [][]string
	var rec func(p []string)
	rec = func(p []string) {
		if len(p) > 0 {
			hists = append(hists, append([]string(nil), p...))
		}
		if len(p) == maxLen {
			return
		}
		for _, l := range letters {
			rec(append(p, l))
		}
	}
	rec(nil)
	if !run.Thorough() {
		hrng := rand.New(rand.NewSource(run.Seed))
		for i := 0; i < 150; i++ {
			var h []string
			for j := 0; j < 4+hrng.Intn(2); j++ {
				h = append(h, letters[hrng.Intn(len(letters))])
			}
			hists = append(hists, h)
		}
	}
	hn := 0
	for _, backend := range []string{"memory", "disk"} {
		for _, h := range hists {
			if !mine() {
				continue
			}
			hn++
			runHistory(run, w, rng, scratch, backend, h, hn)
		}
	}
	run.FinishShard()
}

type doc struct {
	bytes      []byte
	serials    []*big.Int
	acceptable bool
}

func runHistory(run *report.Run, w *world.World, rng *rand.Rand, scratch, backend string, h []string, hn int) {
	wd := filepath.Join(scratch, fmt.Sprintf("wdh%d", hn))
	_ = os.MkdirAll(wd, 0755)
	defer os.RemoveAll(wd)
	path := fmt.Sprintf("/p%d.crl", hn)
	url := w.CRL.URL(path)
	mkEntries := func(n int) ([]crlgen.Entry, []*big.Int) {
		es := gen.Entries(rng, gen.Opts{N: n, SerialWidth: 7})
		var ss []*big.Int
		for _, e := range es {
			ss = append(ss, e.Serial)
		}
		return es, ss
	}
	common, commonS := mkEntries(2)
	build := func(kind string) doc {
		own, ownS := mkEntries(4)
		es := append(append([]crlgen.Entry(nil), common...), own...)
		s := gen.SpecFor(w.Int, es)
		d := doc{serials: append(append([]*big.Int(nil), commonS...), ownS...)}
		switch kind {
		case "rej-badsig":
			b := s.Build(w.Int.Key).DER
			b = append([]byte(nil), b...)
			b[len(b)-1] ^= 1
			d.bytes = b
		case "rej-parse":
			b := s.Build(w.Int.Key)
			// cut inside the entry list after a few complete entries
			cut := b.Layout.EntryStarts[4] + 3
			d.bytes = b.DER[:cut]
		case "rej-critical":
			s.Exts = append(s.Exts, crlgen.UnknownCriticalExt())
			d.bytes = s.Build(w.Int.Key).DER
		default:
			d.bytes = s.Build(w.Int.Key).DER
			d.acceptable = true
		}
		return d
	}
	chk, err := l2.Start(l2.Opts{WorkDir: wd, Storage: backend, SigMode: "verify", Fetch: "actively", Strict: false})
	if err != nil {
		run.Violation("history.provision-failed", err.Error(), nil)
		return
	}
	defer chk.Stop()
	desc := fmt.Sprintf("history backend=%s events=%s", backend, strings.Join(h, ","))
	run.Eval(1)
	var inForce map[string]bool // nil => nothing in force
	loaded := false             // entry loaded in the checker's view (model)
	var current *doc
	everPublished := map[string]*big.Int{}
	rejectedSerials := map[string]bool{}
	nontrivial := false
	var trace []string
	ask := func(s *big.Int) (bool, error) {
		// model of the active-mode handshake: a not yet loaded location is fetched now
		if !loaded && current != nil && current.acceptable {
			loaded = true
			inForce = map[string]bool{}
			for _, x := range current.serials {
				inForce[x.String()] = true
			}
		}
		return chk.Ask(w.Leaf(s, []string{url}, nil))
	}
	for step, ev := range h {
		switch ev {
		case "restart":
			if err := chk.Restart(); err != nil {
				run.Violation("history.restart-failed", desc+": "+err.Error(), nil)
				return
			}
			if backend == "memory" {
				loaded, inForce = false, nil
			}
			// disk: the persisted accepted list stays in force; the entry is re-opened by the next handshake
		default:
			d := build(ev)
			current = &d
			w.CRL.Set(path, origin.Good(d.bytes))
			for _, s := range d.serials {
				everPublished[s.String()] = s
				if !d.acceptable {
					rejectedSerials[s.String()] = true
				}
			}
			if loaded {
				chk.Refresh()
				if d.acceptable {
					inForce = map[string]bool{}
					for _, x := range d.serials {
						inForce[x.String()] = true
					}
				}
			}
		}
		trace = append(trace, ev)
		// probe everything ever published (+ one neighbour each)
		for _, s := range everPublished {
			for _, probe := range []*big.Int{s, new(big.Int).Add(s, big.NewInt(1))} {
				rev, err := ask(probe)
				should := inForce != nil && inForce[probe.String()]
				run.Count("probes", 1)
				if (rev || err != nil) && !should {
					cls := "never-accepted-entry"
					if rejectedSerials[probe.String()] {
						cls = "entry-of-rejected-crl"
					} else if everPublished[probe.String()] != nil {
						cls = "entry-of-superseded-crl"
					}
					key := fmt.Sprintf("history.%s.%s.after-%s", cls, backend, ev)
					run.Violation(key, fmt.Sprintf("%s step %d: serial %s is reported revoked (err=%v) but is not in the last accepted list; trace %s", desc, step, probe, err, strings.Join(trace, ",")), &report.Replay{Case: map[string]any{"history": h, "backend": backend, "step": step, "serial": probe.String()}})
					return
				}
				if should && rev {
					nontrivial = true
				}
				if rejectedSerials[probe.String()] && !rev && err == nil {
					nontrivial = true
				}
			}
		}
	}
	if nontrivial {
		run.NonTrivial(desc)
	}
	if hn%150 == 1 {
		run.Sample(map[string]any{"history": desc, "serials_probed": len(everPublished) * 2})
	}
}
