// c19: configuration faithfulness — Caddyfile = JSON, documented defaults, nothing ignored
// (exploration of configurations, both syntaxes loaded the way Caddy loads guest modules).
package main

import (
	"context"
	"crypto/sha256"
	"crypto/x509"
	"encoding/hex"
	"encoding/json"
	"encoding/pem"
	"fmt"
	"math/big"
	"math/rand"
	"os"
	"path/filepath"
	"sort"
	"strings"
	"time"

	"github.com/caddyserver/caddy/v2"
	"github.com/caddyserver/caddy/v2/caddyconfig"
	"github.com/caddyserver/caddy/v2/caddyconfig/caddyfile"
	revocation "github.com/gr33nbl00d/caddy-revocation-validator"
	"github.com/gr33nbl00d/caddy-revocation-validator/config"

	"verif/harness/lab/gen"
	"verif/harness/lab/origin"
	"verif/harness/lab/pki"
	"verif/harness/lab/report"
	"verif/harness/lab/sut"
	"verif/harness/lab/world"
)

const moduleID = "tls.client_auth.verifier.revocation"

// host mimics caddytls.ClientAuthentication's guest-module field, so that the validator is
// loaded exactly the way Caddy loads it (inline key, strict JSON, Provision, cleanup on cancel).
type host struct {
	VerifiersRaw []json.RawMessage `json:"verifiers,omitempty" caddy:"namespace=tls.client_auth.verifier inline_key=verifier"`
}

// assignment: option -> value ("" = omitted). Lists are "|"-separated.
type assignment map[string]string

var optionOrder = []string{"mode", "work_dir", "storage_type", "update_interval", "signature_validation_mode", "crl_urls", "crl_files", "trusted_signature_certs_files", "crl_fetch_mode", "crl_cdp_strict", "default_cache_duration", "ocsp_aia_strict", "trusted_responder_certs_files"}

func (a assignment) String() string {
	var p []string
	for _, k := range optionOrder {
		if v, ok := a[k]; ok {
			p = append(p, k+"="+v)
		}
	}
	return strings.Join(p, " ")
}

func list(v string) []string {
	if v == "" {
		return nil
	}
	return strings.Split(v, "|")
}

// toJSON renders the documented JSON form.
func toJSON(a assignment) []byte {
	m := map[string]any{"verifier": "revocation"}
	if v, ok := a["mode"]; ok {
		m["mode"] = v
	}
	crl := map[string]any{}
	cdp := map[string]any{}
	for _, k := range []string{"work_dir", "storage_type", "update_interval", "signature_validation_mode"} {
		if v, ok := a[k]; ok {
			crl[k] = v
		}
	}
	for _, k := range []string{"crl_urls", "crl_files", "trusted_signature_certs_files"} {
		if v, ok := a[k]; ok {
			crl[k] = list(v)
		}
	}
	if v, ok := a["crl_fetch_mode"]; ok {
		cdp["crl_fetch_mode"] = v
	}
	if v, ok := a["crl_cdp_strict"]; ok {
		cdp["crl_cdp_strict"] = v == "true"
	}
	if len(cdp) > 0 {
		crl["cdp_config"] = cdp
	}
	if len(crl) > 0 {
		m["crl_config"] = crl
	}
	oc := map[string]any{}
	if v, ok := a["default_cache_duration"]; ok {
		oc["default_cache_duration"] = v
	}
	if v, ok := a["ocsp_aia_strict"]; ok {
		oc["ocsp_aia_strict"] = v == "true"
	}
	if v, ok := a["trusted_responder_certs_files"]; ok {
		oc["trusted_responder_certs_files"] = list(v)
	}
	if len(oc) > 0 {
		m["ocsp_config"] = oc
	}
	b, _ := json.Marshal(m)
	return b
}

// toCaddyfile renders the documented Caddyfile form (README).
func toCaddyfile(a assignment) string {
	var b strings.Builder
	b.WriteString("revocation {\n")
	if v, ok := a["mode"]; ok {
		fmt.Fprintf(&b, "  mode %s\n", v)
	}
	crlKeys := []string{"work_dir", "storage_type", "update_interval", "signature_validation_mode", "crl_urls", "crl_files", "trusted_signature_certs_files", "crl_fetch_mode", "crl_cdp_strict"}
	has := false
	for _, k := range crlKeys {
		if _, ok := a[k]; ok {
			has = true
		}
	}
	if has {
		b.WriteString("  crl_config {\n")
		for _, k := range []string{"work_dir", "storage_type", "update_interval", "signature_validation_mode"} {
			if v, ok := a[k]; ok {
				fmt.Fprintf(&b, "    %s %q\n", k, v)
			}
		}
		for _, v := range list(a["crl_urls"]) {
			fmt.Fprintf(&b, "    crl_url %q\n", v)
		}
		for _, v := range list(a["crl_files"]) {
			fmt.Fprintf(&b, "    crl_file %q\n", v)
		}
		for _, v := range list(a["trusted_signature_certs_files"]) {
			fmt.Fprintf(&b, "    trusted_signature_cert_file %q\n", v)
		}
		_, f := a["crl_fetch_mode"]
		_, s := a["crl_cdp_strict"]
		if f || s {
			b.WriteString("    cdp_config {\n")
			if f {
				fmt.Fprintf(&b, "      crl_fetch_mode %s\n", a["crl_fetch_mode"])
			}
			if s {
				fmt.Fprintf(&b, "      crl_cdp_strict %s\n", a["crl_cdp_strict"])
			}
			b.WriteString("    }\n")
		}
		b.WriteString("  }\n")
	}
	_, d := a["default_cache_duration"]
	_, s := a["ocsp_aia_strict"]
	_, t := a["trusted_responder_certs_files"]
	if d || s || t {
		b.WriteString("  ocsp_config {\n")
		if d {
			fmt.Fprintf(&b, "    default_cache_duration %s\n", a["default_cache_duration"])
		}
		for _, v := range list(a["trusted_responder_certs_files"]) {
			fmt.Fprintf(&b, "    trusted_responder_cert_file %q\n", v)
		}
		if s {
			fmt.Fprintf(&b, "    ocsp_aia_strict %s\n", a["ocsp_aia_strict"])
		}
		b.WriteString("  }\n")
	}
	b.WriteString("}\n")
	return b.String()
}

type loaded struct {
	val    *revocation.CertRevocationValidator
	cancel context.CancelFunc
}

func loadJSON(raw []byte) (*loaded, error) {
	ctx, cancel := caddy.NewContext(caddy.Context{Context: context.Background()})
	h := &host{VerifiersRaw: []json.RawMessage{raw}}
	vals, err := ctx.LoadModule(h, "VerifiersRaw")
	if err != nil {
		cancel()
		return nil, err
	}
	mods := vals.([]any)
	v, ok := mods[0].(*revocation.CertRevocationValidator)
	if !ok {
		cancel()
		return nil, fmt.Errorf("harness: unexpected module type %T", mods[0])
	}
	return &loaded{v, cancel}, nil
}

// adaptCaddyfile: Caddyfile text -> JSON the way caddytls' verifier directive does.
func adaptCaddyfile(text string) (raw []byte, err error) {
	defer func() {
		if r := recover(); r != nil {
			err = fmt.Errorf("panic while adapting: %v", r)
		}
	}()
	d := caddyfile.NewTestDispenser(text)
	d.Next()
	unm, err := caddyfile.UnmarshalModule(d, moduleID)
	if err != nil {
		return nil, err
	}
	var warnings []caddyconfig.Warning
	return caddyconfig.JSONModuleObject(unm, "verifier", "revocation", &warnings), nil
}

type effective struct {
	Mode        config.RevocationCheckMode
	CRLEnabled  bool
	Storage     config.StorageType
	Interval    time.Duration
	SigMode     config.SignatureValidationMode
	Fetch       config.CRLFetchMode
	CDPStrict   bool
	URLs        []string
	Files       []string
	Trusted     []string
	Cache       time.Duration
	AIAStrict   bool
	TrustedOCSP []string
}

func certHashes(cs []*x509.Certificate) []string {
	var out []string
	for _, c := range cs {
		h := sha256.Sum256(c.Raw)
		out = append(out, hex.EncodeToString(h[:6]))
	}
	return out
}

func effectiveOf(v *revocation.CertRevocationValidator) effective {
	e := effective{Mode: v.ModeParsed}
	e.CRLEnabled = v.ModeParsed == config.RevocationCheckModePreferCRL || v.ModeParsed == config.RevocationCheckModePreferOCSP || v.ModeParsed == config.RevocationCheckModeCRLOnly
	if c := v.CRLConfig; c != nil && e.CRLEnabled {
		e.Storage, e.Interval, e.SigMode = c.StorageTypeParsed, c.UpdateIntervalParsed, c.SignatureValidationModeParsed
		if c.CDPConfig != nil {
			e.Fetch, e.CDPStrict = c.CDPConfig.CRLFetchModeParsed, c.CDPConfig.CRLCDPStrict
		}
		e.URLs, e.Files, e.Trusted = append([]string(nil), c.CRLUrls...), append([]string(nil), c.CRLFiles...), certHashes(c.TrustedSignatureCerts)
	}
	if o := v.OCSPConfig; o != nil {
		e.Cache, e.AIAStrict, e.TrustedOCSP = o.DefaultCacheDurationParsed, o.OCSPAIAStrict, certHashes(o.TrustedResponderCerts)
	}
	return e
}

// expected effective configuration from the assignment and the documented defaults.
func expectedOf(a assignment, intHash string) effective {
	e := effective{}
	switch a["mode"] {
	case "", "prefer_ocsp":
		e.Mode = config.RevocationCheckModePreferOCSP
	case "prefer_crl":
		e.Mode = config.RevocationCheckModePreferCRL
	case "crl_only":
		e.Mode = config.RevocationCheckModeCRLOnly
	case "ocsp_only":
		e.Mode = config.RevocationCheckModeOCSPOnly
	case "disabled":
		e.Mode = config.RevocationCheckModeDisabled
	}
	e.CRLEnabled = e.Mode == config.RevocationCheckModePreferCRL || e.Mode == config.RevocationCheckModePreferOCSP || e.Mode == config.RevocationCheckModeCRLOnly
	if e.CRLEnabled {
		e.Storage = config.Disk
		if a["storage_type"] == "memory" {
			e.Storage = config.Memory
		}
		e.Interval = 30 * time.Minute
		if v := a["update_interval"]; v != "" {
			e.Interval, _ = time.ParseDuration(v)
		}
		e.SigMode = config.SignatureValidationModeVerify
		switch a["signature_validation_mode"] {
		case "none":
			e.SigMode = config.SignatureValidationModeNone
		case "verify_log":
			e.SigMode = config.SignatureValidationModeVerifyLog
		}
		if a["crl_fetch_mode"] == "fetch_background" {
			e.Fetch = config.CRLFetchModeBackground
		}
		e.CDPStrict = a["crl_cdp_strict"] == "true"
		e.URLs, e.Files = list(a["crl_urls"]), list(a["crl_files"])
		for _, f := range list(a["trusted_signature_certs_files"]) {
			e.Trusted = append(e.Trusted, hashOfPEMFile(f, intHash))
		}
	}
	if v := a["default_cache_duration"]; v != "" {
		e.Cache, _ = time.ParseDuration(v)
	}
	e.AIAStrict = a["ocsp_aia_strict"] == "true"
	for _, f := range list(a["trusted_responder_certs_files"]) {
		e.TrustedOCSP = append(e.TrustedOCSP, hashOfPEMFile(f, intHash))
	}
	return e
}

// hashOfPEMFile: identity of the certificate in a PEM file written by the harness (links followed).
func hashOfPEMFile(path, fallback string) string {
	b, err := os.ReadFile(path)
	if err != nil {
		return fallback
	}
	blk, _ := pem.Decode(b)
	if blk == nil {
		return fallback
	}
	h := sha256.Sum256(blk.Bytes)
	return hex.EncodeToString(h[:6])
}

func (e effective) key() string {
	b, _ := json.Marshal(e)
	return string(b)
}

func main() {
	run := report.New("C19", "exploration")
	run.Rule("assignments over 13 documented options (mode, work_dir, storage_type, update_interval, signature_validation_mode, crl_urls, crl_files, trusted_signature_certs_files, crl_fetch_mode, crl_cdp_strict, default_cache_duration, ocsp_aia_strict, trusted_responder_certs_files): every option alone, all pairs of (option, value) through a greedy pairwise cover, and seeded random subsets; each assignment is rendered as JSON and as Caddyfile, both are loaded (and loaded a second time after Cleanup, as a configuration reload does, and a third time after a referenced trusted-certificate file was replaced by the re-certified CA; work_dir spelt with trailing slash / dot segment / doubled slash in rotation) the way Caddy loads a guest module (inline key, strict JSON, Provision; Caddyfile via UnmarshalModule + JSONModuleObject first); oracle: both load, their exported effective configurations are equal to each other and to the documented defaults applied to the assignment, and three behavioural probes (listed certificate, unavailable strict CDP, unavailable strict responder) agree with the mode table; invalid variants (misspelt key at each nesting level, unknown enum, bad duration, non-boolean, missing argument, missing file, missing/non-directory work_dir) must fail to load in both syntaxes; non-trivial = assignment with >= 2 options set (valid) or invalid variant that was rejected in both syntaxes; distinct = assignment text")
	run.Assume("the Caddyfile form is the one documented in the README (crl_url / crl_file / trusted_signature_cert_file / trusted_responder_cert_file repeated per list element)")
	scratch, _ := report.Scratch("C19")
	sut.QuietStderr(filepath.Join(scratch, "stderr.log"))
	si, sn, isShard := report.Shard()
	if !isShard {
		run.RunShards(10, scratch)
		run.Finish(100)
		return
	}
	rng := rand.New(rand.NewSource(run.Seed))
	w := world.New(fmt.Sprintf("C19-%d", si))
	defer w.Close()
	intPEM := pki.WritePEM(filepath.Join(scratch, "int.pem"), w.Int.Cert)
	ih := sha256.Sum256(w.Int.Cert.Raw)
	intHash := hex.EncodeToString(ih[:6])
	entries := gen.Entries(rng, gen.Opts{N: 5, SerialWidth: 8})
	listedSerial := entries[2].Serial
	crlDER := gen.SpecFor(w.Int, entries).Build(w.Int.Key).DER
	crlFile := filepath.Join(scratch, "configured.crl")
	_ = os.WriteFile(crlFile, crlDER, 0644)
	// further valid spellings of the same files: a symbolic link, a second copy in a directory whose
	// name has a space and non-ASCII letters
	crlLink := filepath.Join(scratch, "current.crl")
	_ = os.Symlink(crlFile, crlLink)
	oddDir := filepath.Join(scratch, "crl drop ünï")
	_ = os.MkdirAll(oddDir, 0755)
	crlOdd := filepath.Join(oddDir, "ca 1.crl")
	_ = os.WriteFile(crlOdd, crlDER, 0644)
	pemLink := filepath.Join(scratch, "int-current.pem")
	_ = os.Symlink(intPEM, pemLink)
	rootPEM := pki.WritePEM(filepath.Join(scratch, "root.pem"), w.Root.Cert)
	// the issuing CA after a key roll-over: same subject name, another key
	rolled := w.Root.Issue(pki.CertOpts{RawSubject: w.Int.Cert.RawSubject, IsCA: true})
	rolledPEM := pki.WritePEM(filepath.Join(scratch, "int-rolled.pem"), rolled.Cert)
	// a trusted-certificate file whose content is replaced between loads (the issuing CA re-certified: same name and key,
	// another serial): every load has to read the file as it is at that moment
	intAlt := w.Root.Issue(pki.CertOpts{RawSubject: w.Int.Cert.RawSubject, IsCA: true, Key: w.Int.Key})
	rotPEM := pki.WritePEM(filepath.Join(scratch, "int-rotating.pem"), w.Int.Cert)
	rotN := 0
	rotate := func() {
		rotN++
		pki.WritePEM(rotPEM, []*x509.Certificate{w.Int.Cert, intAlt.Cert}[rotN%2])
	}
	w.CRL.Set("/a.crl", origin.Good(crlDER))
	w.CRL.Set("/b.crl", origin.Good(crlDER))
	w.CRL.Set("/bad.crl", origin.Status(500, []byte("down")))
	w.OCSP.Set("/down", origin.Status(500, []byte("down")))
	urlA, urlB := w.CRL.URL("/a.crl"), w.CRL.URL("/b.crl")

	values := map[string][]string{
		"mode":                          {"prefer_ocsp", "prefer_crl", "ocsp_only", "crl_only", "disabled"},
		"storage_type":                  {"memory", "disk"},
		"update_interval":               {"45s", "1h"},
		"signature_validation_mode":     {"none", "verify_log", "verify"},
		"crl_urls":                      {urlA, urlA + "|" + urlB},
		"crl_files":                     {crlFile, crlLink, crlFile + "|" + crlOdd},
		"trusted_signature_certs_files": {intPEM, pemLink, rootPEM + "|" + intPEM, rolledPEM + "|" + intPEM, rotPEM},
		"crl_fetch_mode":                {"fetch_actively", "fetch_background"},
		"crl_cdp_strict":                {"true", "false"},
		"default_cache_duration":        {"10m", "0s"},
		"ocsp_aia_strict":               {"true", "false"},
		"trusted_responder_certs_files": {intPEM, pemLink + "|" + rootPEM, intPEM + "|" + rolledPEM, rotPEM + "|" + intPEM},
	}
	optKeys := make([]string, 0, len(values))
	for k := range values {
		optKeys = append(optKeys, k)
	}
	sort.Strings(optKeys)
	// make an assignment valid: work_dir when CRL checking is enabled; a trusted signer when a
	// configured CRL must verify
	wdN := 0
	fix := func(a assignment) assignment {
		m := a["mode"]
		crlOn := m == "" || m == "prefer_ocsp" || m == "prefer_crl" || m == "crl_only"
		if crlOn {
			if _, ok := a["work_dir"]; !ok {
				a["work_dir"] = "@WD@"
			}
		}
		if a["crl_urls"] != "" || a["crl_files"] != "" {
			if sm := a["signature_validation_mode"]; sm == "" || sm == "verify" {
				a["trusted_signature_certs_files"] = intPEM
			}
		}
		return a
	}
	var assigns []assignment
	assigns = append(assigns, fix(assignment{}))
	for _, k := range optKeys {
		for _, v := range values[k] {
			assigns = append(assigns, fix(assignment{k: v}))
		}
	}
	// greedy pairwise cover
	type pair struct{ k1, v1, k2, v2 string }
	uncovered := map[pair]bool{}
	for i, k1 := range optKeys {
		for _, k2 := range optKeys[i+1:] {
			for _, v1 := range values[k1] {
				for _, v2 := range values[k2] {
					uncovered[pair{k1, v1, k2, v2}] = true
				}
			}
		}
	}
	for len(uncovered) > 0 {
		best, bestN := assignment(nil), -1
		for try := 0; try < 30; try++ {
			a := assignment{}
			for _, k := range optKeys {
				if rng.Intn(5) != 0 {
					a[k] = values[k][rng.Intn(len(values[k]))]
				}
			}
			n := 0
			for p := range uncovered {
				if a[p.k1] == p.v1 && a[p.k2] == p.v2 {
					n++
				}
			}
			if n > bestN {
				best, bestN = a, n
			}
		}
		if bestN <= 0 {
			for p := range uncovered {
				best = assignment{p.k1: p.v1, p.k2: p.v2}
				break
			}
		}
		for p := range uncovered {
			if best[p.k1] == p.v1 && best[p.k2] == p.v2 {
				delete(uncovered, p)
			}
		}
		assigns = append(assigns, fix(best))
	}
	pairwiseCount := len(assigns)
	nrand := 150
	if run.Thorough() {
		nrand = 3000
	}
	for i := 0; i < nrand; i++ {
		a := assignment{}
		for _, k := range optKeys {
			if rng.Intn(2) == 0 {
				a[k] = values[k][rng.Intn(len(values[k]))]
			}
		}
		assigns = append(assigns, fix(a))
	}
	run.Set("assignments_from_singles_and_pairwise_cover", pairwiseCount)

	withWD := func(a assignment) assignment {
		b := assignment{}
		for k, v := range a {
			b[k] = v
		}
		if b["work_dir"] == "@WD@" {
			wdN++
			d := filepath.Join(scratch, fmt.Sprintf("wd%d", wdN))
			_ = os.MkdirAll(d, 0755)
			// the same directory written in the ways configurations do (the README uses ./crlworkdir)
			switch wdN % 4 {
			case 1:
				d += "/"
			case 2:
				d = filepath.Dir(d) + "/./" + filepath.Base(d)
			case 3:
				d = filepath.Dir(d) + "//" + filepath.Base(d)
			}
			b["work_dir"] = d
		}
		return b
	}
	probe := func(v *revocation.CertRevocationValidator) string {
		verdict := func(serial *big.Int, cdp, aia []string) string {
			ch := w.Leaf(serial, cdp, aia)
			raw := [][]byte{ch[0].Raw}
			if err := v.VerifyClientCertificate(raw, [][]*x509.Certificate{ch}); err != nil {
				return "reject"
			}
			return "accept"
		}
		return fmt.Sprintf("listed=%s strict-cdp-down=%s strict-aia-down=%s",
			verdict(listedSerial, nil, nil),
			verdict(gen.SerialOfWidth(rng, 9, false), []string{w.CRL.URL("/bad.crl")}, nil),
			verdict(gen.SerialOfWidth(rng, 9, false), nil, []string{w.OCSP.URL("/down")}))
	}
	expectProbe := func(e effective, a assignment) string {
		ocspOn := e.Mode != config.RevocationCheckModeCRLOnly && e.Mode != config.RevocationCheckModeDisabled
		listed := "accept"
		if e.CRLEnabled && (len(e.URLs) > 0 || len(e.Files) > 0) {
			listed = "reject"
		}
		cdp := "accept"
		if e.CRLEnabled && e.CDPStrict {
			cdp = "reject"
		}
		aia := "accept"
		if ocspOn && e.AIAStrict {
			aia = "reject"
		}
		return fmt.Sprintf("listed=%s strict-cdp-down=%s strict-aia-down=%s", listed, cdp, aia)
	}

	for ai, a0 := range assigns {
		if ai%sn != si {
			continue
		}
		run.Eval(1)
		desc := a0.String()
		rotate()
		want := expectedOf(a0, intHash)
		var got [2]effective
		var probes [2]string
		ok := true
		for form := 0; form < 2; form++ {
			a := withWD(a0)
			formName := []string{"json", "caddyfile"}[form]
			var raw []byte
			var err error
			if form == 0 {
				raw = toJSON(a)
			} else {
				raw, err = adaptCaddyfile(toCaddyfile(a))
				if err != nil {
					ok = false
					run.Violation("valid-assignment.caddyfile-adapt-failed."+firstOption(a0), fmt.Sprintf("%s: Caddyfile form not accepted: %v\n%s", desc, err, toCaddyfile(a)), &report.Replay{Case: desc, Files: map[string][]byte{"Caddyfile": []byte(toCaddyfile(a))}})
					break
				}
			}
			l, err := loadJSON(raw)
			if err != nil {
				ok = false
				run.Violation("valid-assignment.load-failed."+formName+"."+firstOption(a0), fmt.Sprintf("%s: %s form failed to load/provision: %v\n%s", desc, formName, err, raw), &report.Replay{Case: desc, Files: map[string][]byte{"config.json": raw}})
				break
			}
			got[form] = effectiveOf(l.val)
			// normalise the per-form work_dir-dependent parts: none of the compared fields contain it
			probes[form] = probe(l.val)
			l.cancel()
			// a configuration reload: the same configuration is loaded again after the old module was cleaned up
			if l2nd, err := loadJSON(raw); err != nil {
				ok = false
				run.Violation("valid-assignment.reload-failed."+formName, fmt.Sprintf("%s: %s form loaded once but not again after Cleanup: %v\n%s", desc, formName, err, raw), &report.Replay{Case: desc, Files: map[string][]byte{"config.json": raw}})
				break
			} else {
				l2nd.cancel()
			}
			if strings.Contains(string(raw), "int-rotating.pem") {
				// reload after the trusted-certificate file was replaced
				rotate()
				l3, err := loadJSON(raw)
				if err != nil {
					ok = false
					run.Violation("valid-assignment.reload-failed."+formName, fmt.Sprintf("%s: %s form not loaded again after a trusted certificate file was replaced: %v\n%s", desc, formName, err, raw), &report.Replay{Case: desc, Files: map[string][]byte{"config.json": raw}})
					break
				}
				got3, want3 := effectiveOf(l3.val), expectedOf(a0, intHash)
				l3.cancel()
				rotate()
				run.Count("reloads_after_file_replaced", 1)
				if got3.key() != want3.key() {
					ok = false
					run.Violation("reload-ignores-replaced-file."+formName+"."+diffField(got3, want3), fmt.Sprintf("%s: %s form reloaded after %s was replaced yields %s, the files now give %s", desc, formName, rotPEM, got3.key(), want3.key()), &report.Replay{Case: desc, Files: map[string][]byte{"config": raw}})
					break
				}
			}
			if got[form].key() != want.key() {
				ok = false
				run.Violation("effective-config-differs-from-documented."+formName+"."+diffField(got[form], want), fmt.Sprintf("%s: %s form yields %s, documented semantics give %s", desc, formName, got[form].key(), want.key()), &report.Replay{Case: desc, Files: map[string][]byte{"config": raw}})
				break
			}
			if wp := expectProbe(want, a0); probes[form] != wp {
				ok = false
				run.Violation("behaviour-differs-from-configuration."+formName, fmt.Sprintf("%s: %s form behaves %q, expected %q", desc, formName, probes[form], wp), &report.Replay{Case: desc})
				break
			}
		}
		if ok && (got[0].key() != got[1].key() || probes[0] != probes[1]) {
			ok = false
			run.Violation("caddyfile-differs-from-json."+diffField(got[0], got[1]), fmt.Sprintf("%s: json %s / %s vs caddyfile %s / %s", desc, got[0].key(), probes[0], got[1].key(), probes[1]), &report.Replay{Case: desc})
		}
		if ok && len(a0) >= 2 {
			run.NonTrivial(desc)
		}
		if ai%60 == 0 {
			run.Sample(map[string]any{"assignment": desc, "effective": want, "probes": probes[0]})
		}
	}

	// ---- invalid variants
	type invalid struct {
		name      string
		json      string
		caddyfile string
	}
	wd := filepath.Join(scratch, "wd-invalid")
	_ = os.MkdirAll(wd, 0755)
	notDir := filepath.Join(scratch, "not-a-dir")
	_ = os.WriteFile(notDir, []byte("x"), 0644)
	j := func(body string) string { return `{"verifier":"revocation",` + body + `}` }
	cf := func(body string) string { return "revocation {\n" + body + "\n}\n" }
	crlOK := fmt.Sprintf(`"crl_config":{"work_dir":%q}`, wd)
	cfCrlOK := fmt.Sprintf("crl_config {\n work_dir %q\n}", wd)
	invs := []invalid{
		{"misspelt-key.top", j(`"mod":"crl_only",` + crlOK), cf("mod crl_only\n" + cfCrlOK)},
		{"misspelt-key.crl_config", j(fmt.Sprintf(`"crl_config":{"work_dir":%q,"storage_typo":"memory"}`, wd)), cf(fmt.Sprintf("crl_config {\n work_dir %q\n storage_typo memory\n}", wd))},
		{"misspelt-key.cdp_config", j(fmt.Sprintf(`"crl_config":{"work_dir":%q,"cdp_config":{"crl_cdp_strikt":true}}`, wd)), cf(fmt.Sprintf("crl_config {\n work_dir %q\n cdp_config {\n crl_cdp_strikt true\n }\n}", wd))},
		{"misspelt-key.ocsp_config", j(crlOK + `,"ocsp_config":{"ocsp_aia_strikt":true}`), cf(cfCrlOK + "\nocsp_config {\n ocsp_aia_strikt true\n}")},
		{"unknown-value.mode", j(`"mode":"crl_first",` + crlOK), cf("mode crl_first\n" + cfCrlOK)},
		{"unknown-value.storage_type", j(fmt.Sprintf(`"crl_config":{"work_dir":%q,"storage_type":"ssd"}`, wd)), cf(fmt.Sprintf("crl_config {\n work_dir %q\n storage_type ssd\n}", wd))},
		{"unknown-value.signature_validation_mode", j(fmt.Sprintf(`"crl_config":{"work_dir":%q,"signature_validation_mode":"maybe"}`, wd)), cf(fmt.Sprintf("crl_config {\n work_dir %q\n signature_validation_mode maybe\n}", wd))},
		{"unknown-value.crl_fetch_mode", j(fmt.Sprintf(`"crl_config":{"work_dir":%q,"cdp_config":{"crl_fetch_mode":"lazily"}}`, wd)), cf(fmt.Sprintf("crl_config {\n work_dir %q\n cdp_config {\n crl_fetch_mode lazily\n }\n}", wd))},
		{"bad-duration.update_interval", j(fmt.Sprintf(`"crl_config":{"work_dir":%q,"update_interval":"10 parsecs"}`, wd)), cf(fmt.Sprintf("crl_config {\n work_dir %q\n update_interval 10parsecs\n}", wd))},
		{"bad-duration.default_cache_duration", j(crlOK + `,"ocsp_config":{"default_cache_duration":"soon"}`), cf(cfCrlOK + "\nocsp_config {\n default_cache_duration soon\n}")},
		{"non-boolean.crl_cdp_strict", j(fmt.Sprintf(`"crl_config":{"work_dir":%q,"cdp_config":{"crl_cdp_strict":"yes"}}`, wd)), cf(fmt.Sprintf("crl_config {\n work_dir %q\n cdp_config {\n crl_cdp_strict yes\n }\n}", wd))},
		{"non-boolean.ocsp_aia_strict", j(crlOK + `,"ocsp_config":{"ocsp_aia_strict":"ja"}`), cf(cfCrlOK + "\nocsp_config {\n ocsp_aia_strict ja\n}")},
		{"missing-file.crl_files", j(fmt.Sprintf(`"mode":"crl_only","crl_config":{"work_dir":%q,"crl_files":["/nonexistent/x.crl"],"signature_validation_mode":"none"}`, wd)), cf(fmt.Sprintf("mode crl_only\ncrl_config {\n work_dir %q\n crl_file /nonexistent/x.crl\n signature_validation_mode none\n}", wd))},
		{"missing-file.trusted_signature_certs_files", j(fmt.Sprintf(`"crl_config":{"work_dir":%q,"trusted_signature_certs_files":["/nonexistent/ca.pem"]}`, wd)), cf(fmt.Sprintf("crl_config {\n work_dir %q\n trusted_signature_cert_file /nonexistent/ca.pem\n}", wd))},
		{"missing-file.trusted_responder_certs_files", j(crlOK + `,"ocsp_config":{"trusted_responder_certs_files":["/nonexistent/r.pem"]}`), cf(cfCrlOK + "\nocsp_config {\n trusted_responder_cert_file /nonexistent/r.pem\n}")},
		{"work_dir.missing-for-crl-mode", j(`"mode":"crl_only"`), cf("mode crl_only")},
		{"work_dir.nonexistent", j(`"mode":"crl_only","crl_config":{"work_dir":"/nonexistent/dir"}`), cf("mode crl_only\ncrl_config {\n work_dir /nonexistent/dir\n}")},
		{"work_dir.not-a-directory", j(fmt.Sprintf(`"mode":"crl_only","crl_config":{"work_dir":%q}`, notDir)), cf(fmt.Sprintf("mode crl_only\ncrl_config {\n work_dir %q\n}", notDir))},
		{"missing-argument.mode", "", cf("mode\n" + cfCrlOK)},
		{"missing-argument.work_dir", "", cf("crl_config {\n work_dir\n}")},
		{"missing-argument.crl_cdp_strict", "", cf(fmt.Sprintf("crl_config {\n work_dir %q\n cdp_config {\n crl_cdp_strict\n }\n}", wd))},
		{"missing-argument.ocsp_aia_strict", "", cf(cfCrlOK + "\nocsp_config {\n ocsp_aia_strict\n}")},
		{"wrong-type.crl_urls-not-a-list", j(fmt.Sprintf(`"crl_config":{"work_dir":%q,"crl_urls":"http://x/y.crl"}`, wd)), ""},
		{"wrong-type.mode-number", j(`"mode":3,` + crlOK), ""},
	}
	// the same invalid crl_config / ocsp_config content must also be rejected when the mode does not
	// use that mechanism (nothing is ignored): repeat the variants under ocsp_only and disabled
	base := append([]invalid(nil), invs...)
	for _, iv := range base {
		if strings.Contains(iv.name, ".top") || strings.Contains(iv.name, "mode") || strings.HasPrefix(iv.name, "work_dir") || strings.Contains(iv.name, "crl_files") || strings.HasPrefix(iv.name, "wrong-type") {
			continue
		}
		for _, m := range []string{"ocsp_only", "disabled"} {
			nv := invalid{name: iv.name + ".under-mode-" + m}
			if iv.json != "" {
				nv.json = strings.Replace(iv.json, `{"verifier":"revocation",`, `{"verifier":"revocation","mode":"`+m+`",`, 1)
			}
			if iv.caddyfile != "" {
				nv.caddyfile = strings.Replace(iv.caddyfile, "revocation {\n", "revocation {\nmode "+m+"\n", 1)
			}
			invs = append(invs, nv)
		}
	}
	for ii, iv := range invs {
		if ii%sn != si {
			continue
		}
		rejected := 0
		forms := 0
		for form, text := range []string{iv.json, iv.caddyfile} {
			if text == "" {
				continue
			}
			forms++
			run.Eval(1)
			formName := []string{"json", "caddyfile"}[form]
			var raw []byte
			var err error
			if form == 0 {
				raw = []byte(text)
			} else {
				raw, err = adaptCaddyfile(text)
			}
			if err == nil {
				var l *loaded
				l, err = loadJSON(raw)
				if err == nil {
					l.cancel()
				}
			}
			if err == nil {
				run.Violation("invalid-config-accepted."+iv.name+"."+formName, fmt.Sprintf("invalid configuration (%s) loaded and provisioned without error in %s form:\n%s", iv.name, formName, text), &report.Replay{Case: iv.name, Files: map[string][]byte{"config." + formName: []byte(text)}})
				continue
			}
			rejected++
		}
		if rejected == forms {
			run.NonTrivial("invalid " + iv.name)
		}
	}
	run.FinishShard()
}

func firstOption(a assignment) string {
	for _, k := range optionOrder {
		if _, ok := a[k]; ok && k != "work_dir" {
			return k
		}
	}
	return "defaults-only"
}

func diffField(a, b effective) string {
	switch {
	case a.Mode != b.Mode:
		return "mode"
	case a.Storage != b.Storage:
		return "storage_type"
	case a.Interval != b.Interval:
		return "update_interval"
	case a.SigMode != b.SigMode:
		return "signature_validation_mode"
	case a.Fetch != b.Fetch:
		return "crl_fetch_mode"
	case a.CDPStrict != b.CDPStrict:
		return "crl_cdp_strict"
	case strings.Join(a.URLs, "|") != strings.Join(b.URLs, "|"):
		return "crl_urls"
	case strings.Join(a.Files, "|") != strings.Join(b.Files, "|"):
		return "crl_files"
	case strings.Join(a.Trusted, "|") != strings.Join(b.Trusted, "|"):
		return "trusted_signature_certs_files"
	case a.Cache != b.Cache:
		return "default_cache_duration"
	case a.AIAStrict != b.AIAStrict:
		return "ocsp_aia_strict"
	case strings.Join(a.TrustedOCSP, "|") != strings.Join(b.TrustedOCSP, "|"):
		return "trusted_responder_certs_files"
	}
	return "other"
}
