// c05: OCSP authenticity — only an issuer-authorised answer for this certificate counts
// (matrix of signers/serials/statuses + single-bit flips of authentic responses; L2 monitor).
package main

import (
	"crypto"
	"crypto/x509"
	"fmt"
	"math/big"
	"math/rand"
	"path/filepath"
	"strings"
	"sync"
	"time"

	"golang.org/x/crypto/ocsp"

	"github.com/gr33nbl00d/caddy-revocation-validator/config"
	repoocsp "github.com/gr33nbl00d/caddy-revocation-validator/ocsp"

	"verif/harness/lab/der"
	"verif/harness/lab/l2"
	"verif/harness/lab/origin"
	"verif/harness/lab/pki"
	"verif/harness/lab/report"
	"verif/harness/lab/sut"
	"verif/harness/lab/world"
)

type signer struct {
	Name       string
	Cert       *x509.Certificate // embedded when Embed
	Key        crypto.Signer
	Embed      bool
	Authorised bool
}

type lab struct {
	w        *world.World
	mu       sync.Mutex
	answers  map[string][]byte // serial -> response bytes (nil => HTTP 500)
	strictOn *repoocsp.OCSPRevocationChecker
	strictOf *repoocsp.OCSPRevocationChecker
	url      string
}

func (l *lab) set(serial *big.Int, body []byte) {
	l.mu.Lock()
	l.answers[serial.String()] = body
	l.mu.Unlock()
}

func newChecker(strict bool, cache time.Duration) *repoocsp.OCSPRevocationChecker {
	c := &repoocsp.OCSPRevocationChecker{}
	_ = c.Provision(&config.OCSPConfig{OCSPAIAStrict: strict, DefaultCacheDurationParsed: cache, TrustedResponderCerts: []*x509.Certificate{}}, l2.DebugLogger())
	return c
}

func main() {
	run := report.New("C05", "exploration")
	run.Rule("cells = signer{issuer, delegated+OCSPSigning, delegated without EKU, client's own certificate embedded / not embedded, stranger with/without embedded certificate, sibling CA with/without embedded, delegate of sibling, delegate of root} x serial{this, other = +1, +0xA7*2^64, +2^32} x status{good, revoked, unknown} + error response statuses (bare and wrapped around valid bytes) + every single-bit flip inside tbsResponseData, the signatureAlgorithm OID and the signature of authentic ECDSA responses + truncations; client certificate with/without subjectKeyIdentifier presented with one or two verified chains (all four combinations for every cell of the signer matrix, in rotation elsewhere) and with AKI forms {keyIdentifier, long, issuer+serial, URI+serial with the client carrying the CA's serial}; each response is served to a strict checker (authentic => verdict by status; else error), to a lenient checker (else accepted, whatever the forged body says) and asked again with the responder down and a 1 h cache (cached iff authentic); non-trivial = the responder was contacted and the response reached the parser; distinct = cell / flip position")
	run.Assume("reference authenticity = built by the harness: which key signed, which certificate is embedded, which serial and status were put in", "bit flips are confined to regions where every bit is signed or is the signature/algorithm OID itself (ECDSA responses carry no algorithm parameters)")
	scratch, _ := report.Scratch("C05")
	sut.QuietStderr(filepath.Join(scratch, "stderr.log"))
	rng := rand.New(rand.NewSource(run.Seed))
	w := world.New("C05")
	defer w.Close()
	l := &lab{w: w, answers: map[string][]byte{}, url: ""}
	w.OCSP.Set("/ocsp", origin.Func(func(req []byte) (int, []byte) {
		r, err := ocsp.ParseRequest(req)
		if err != nil {
			return 400, nil
		}
		l.mu.Lock()
		b := l.answers[r.SerialNumber.String()]
		l.mu.Unlock()
		if b == nil {
			return 500, []byte("<html>down</html>")
		}
		return 200, b
	}))
	l.url = w.OCSP.URL("/ocsp")
	w.OCSP.Fragment.Store(run.Seed%2 == 0) // even seeds: answers delivered in two pieces
	l.strictOn = newChecker(true, time.Hour)
	l.strictOf = newChecker(false, time.Hour)

	// signers
	sibling := w.Root.Issue(pki.CertOpts{RawSubject: w.Int.Cert.RawSubject, IsCA: true})
	stranger := pki.NewRoot(pki.CertOpts{CN: "C05 stranger"})
	delegEKU := w.Int.Issue(pki.CertOpts{CN: "C05 delegated responder", ExtKeyUsage: []x509.ExtKeyUsage{x509.ExtKeyUsageOCSPSigning}})
	delegNoEKU := w.Int.Issue(pki.CertOpts{CN: "C05 delegated without eku"})
	delegOther := w.Int.Issue(pki.CertOpts{CN: "C05 delegated client-auth eku", ExtKeyUsage: []x509.ExtKeyUsage{x509.ExtKeyUsageClientAuth}})
	delegOfSibling := sibling.Issue(pki.CertOpts{CN: "C05 delegate of sibling", ExtKeyUsage: []x509.ExtKeyUsage{x509.ExtKeyUsageOCSPSigning}})
	delegOfRoot := w.Root.Issue(pki.CertOpts{CN: "C05 delegate of root", ExtKeyUsage: []x509.ExtKeyUsage{x509.ExtKeyUsageOCSPSigning}})
	// a self-signed stranger that copies the issuer's subject name and subject key identifier
	imitator := pki.NewRoot(pki.CertOpts{RawSubject: w.Int.Cert.RawSubject, SKI: w.Int.Cert.SubjectKeyId})
	imitatorEKU := pki.NewRoot(pki.CertOpts{RawSubject: w.Int.Cert.RawSubject, SKI: w.Int.Cert.SubjectKeyId, ExtKeyUsage: []x509.ExtKeyUsage{x509.ExtKeyUsageOCSPSigning}})
	signers := []signer{
		{"issuer", w.Int.Cert, w.Int.Key, false, true},
		{"delegated+OCSPSigning", delegEKU.Cert, delegEKU.Key, true, true},
		{"delegated-without-eku", delegNoEKU.Cert, delegNoEKU.Key, true, false},
		{"delegated-other-eku", delegOther.Cert, delegOther.Key, true, false},
		{"stranger-embedded", stranger.Cert, stranger.Key, true, false},
		{"stranger-not-embedded", stranger.Cert, stranger.Key, false, false},
		{"sibling-ca", sibling.Cert, sibling.Key, false, false},
		{"sibling-ca-embedded", sibling.Cert, sibling.Key, true, false},
		{"delegate-of-sibling", delegOfSibling.Cert, delegOfSibling.Key, true, false},
		{"delegate-of-root", delegOfRoot.Cert, delegOfRoot.Key, true, false},
		{"client-own-certificate", nil, nil, true, false},
		{"client-own-certificate-not-embedded", nil, nil, false, false},
		// signed and embedded by the client certificate, but the ResponderID field names the issuer
		{"client-own-certificate-claiming-the-issuers-responder-id", nil, nil, true, false},
		{"stranger-imitating-issuer-name-and-keyid-embedded", imitator.Cert, imitator.Key, true, false},
		{"stranger-imitating-issuer-name-and-keyid", imitator.Cert, imitator.Key, false, false},
		{"stranger-imitating-issuer-with-ocspsigning-embedded", imitatorEKU.Cert, imitatorEKU.Key, true, false},
	}
	statuses := map[string]int{"good": ocsp.Good, "revoked": ocsp.Revoked, "unknown": ocsp.Unknown}

	mkResp := func(sg signer, leaf *pki.CA, serial *big.Int, status int) []byte {
		tmpl := ocsp.Response{Status: status, SerialNumber: serial, ThisUpdate: time.Now().Add(-time.Minute), IssuerHash: crypto.SHA1}
		if status == ocsp.Revoked {
			tmpl.RevokedAt = time.Now().Add(-time.Hour)
		}
		cert, key := sg.Cert, sg.Key
		if strings.HasPrefix(sg.Name, "client-own-certificate") {
			cert, key = leaf.Cert, leaf.Key
		}
		if sg.Embed {
			tmpl.Certificate = cert
		}
		if strings.HasSuffix(sg.Name, "claiming-the-issuers-responder-id") {
			// CreateResponse takes the ResponderID (byName) from the responder certificate it is given and
			// never checks that the key belongs to it
			cert = w.Int.Cert
		}
		b, err := ocsp.CreateResponse(w.Int.Cert, cert, tmpl, key)
		if err != nil {
			panic(fmt.Sprintf("harness: CreateResponse %s: %v", sg.Name, err))
		}
		return b
	}

	// three-call protocol for a response builder (needs the leaf because the response may be
	// signed by the leaf's own key and is bound to the leaf's serial)
	type verdict struct {
		strictErr, strictRev, cachedAnswer, cachedRev, lenErr, lenRev bool
		hits2                                                         int
		shape                                                         string
	}
	// the client certificate with / without subjectKeyIdentifier, presented with one verified chain or
	// with two (the issuing CA is a trust anchor itself and also chains to the root), in rotation
	shapeN := 0
	forceShape := -1 // the signer matrix runs every cell in all four shapes
	// authorityKeyIdentifier form of the client certificate ("" = keyIdentifier only); "uri-serial+collide":
	// a URI as authorityCertIssuer + the issuing CA's serial, and the client certificate carries that
	// same serial number itself
	forceAKI := ""
	protocol := func(build func(leaf *pki.CA, serial *big.Int) []byte) verdict {
		var v verdict
		shapeN++
		sh := shapeN
		if forceShape >= 0 {
			sh = forceShape
		}
		noSKI := sh%2 == 1
		twoChains := (sh/2)%2 == 1
		v.shape = fmt.Sprintf("leaf-ski=%v chains=%d aki=%s", !noSKI, map[bool]int{false: 1, true: 2}[twoChains], map[string]string{"": "keyid"}[forceAKI]+forceAKI)
		for pass, chk := range []*repoocsp.OCSPRevocationChecker{l.strictOn, l.strictOf} {
			serial := pki.NextSerial()
			akiForm := forceAKI
			if forceAKI == "uri-serial+collide" {
				akiForm = "uri-serial"
				if pass == 0 {
					serial = w.Int.Cert.SerialNumber // one certificate of the CA may carry the CA's own serial
				}
			}
			leaf := w.Int.Issue(pki.CertOpts{CN: "c05 leaf", Serial: serial, OCSP: []string{l.url}, NoSKI: noSKI, AKIForm: akiForm})
			chain := []*x509.Certificate{leaf.Cert, w.Int.Cert, w.Root.Cert}
			chains := [][]*x509.Certificate{chain}
			if twoChains {
				chains = [][]*x509.Certificate{chain[:2], chain}
			}
			l.set(serial, build(leaf, serial))
			st, err := chk.IsRevoked(leaf.Cert, chains)
			if pass == 0 {
				v.strictErr = err != nil
				v.strictRev = st != nil && st.Revoked
				l.set(serial, nil)
				h := w.OCSP.HitCount("/ocsp")
				st2, err2 := chk.IsRevoked(leaf.Cert, chains)
				v.hits2 = w.OCSP.HitCount("/ocsp") - h
				v.cachedAnswer = err2 == nil
				v.cachedRev = st2 != nil && st2.Revoked
			} else {
				v.lenErr = err != nil
				v.lenRev = st != nil && st.Revoked
			}
		}
		return v
	}
	check := func(desc, class string, authentic bool, revoked bool, v verdict) {
		run.Eval(1)
		desc += " " + v.shape
		rp := &report.Replay{Case: map[string]any{"case": desc, "expected_authentic": authentic, "observed": fmt.Sprintf("%+v", v)}}
		ok := true
		if authentic && strings.Contains(v.shape, "aki=uri-serial") {
			// the property is one-directional; whether the issuer of a certificate with such an AKI is
			// found at all is not its subject
			run.Count("authentic_cells_with_exotic_aki_not_judged", 1)
			return
		}
		if authentic {
			if v.strictErr || v.strictRev != revoked {
				ok = false
				run.Violation(class+".authentic-not-honoured", fmt.Sprintf("%s: authentic answer (revoked=%v) but strict checker said err=%v revoked=%v", desc, revoked, v.strictErr, v.strictRev), rp)
			}
			if v.lenErr || v.lenRev != revoked {
				ok = false
				run.Violation(class+".authentic-not-honoured.lenient", desc, rp)
			}
			if !v.cachedAnswer || v.cachedRev != revoked || v.hits2 != 0 {
				ok = false
				run.Violation(class+".authentic-not-cached", fmt.Sprintf("%s: second call answered=%v revoked=%v hits=%d", desc, v.cachedAnswer, v.cachedRev, v.hits2), rp)
			}
		} else {
			if !v.strictErr {
				ok = false
				run.Violation(class+".influenced-verdict", fmt.Sprintf("%s: not authentic, yet the strict checker took it as an answer (revoked=%v)", desc, v.strictRev), rp)
			}
			if v.lenErr || v.lenRev {
				ok = false
				run.Violation(class+".influenced-verdict.lenient", fmt.Sprintf("%s: not authentic, yet the lenient checker said err=%v revoked=%v", desc, v.lenErr, v.lenRev), rp)
			}
			if v.cachedAnswer {
				ok = false
				run.Violation(class+".cached", fmt.Sprintf("%s: not authentic, yet answered from cache with the responder down (revoked=%v)", desc, v.cachedRev), rp)
			}
		}
		if ok {
			run.NonTrivial(desc)
		}
	}

	// ---- matrix
	for _, sg := range signers {
		// "other+2^64" / "other+2^32": a sibling certificate whose serial agrees with this one in its low 64 / 32 bits
		for _, which := range []string{"this", "other", "other+2^64", "other+2^32"} {
			for sn, st := range statuses {
				sg, which, st := sg, which, st
				for round := 0; round < 8; round++ {
					forceShape = round % 4
					forceAKI = []string{"", "long", "issuer-serial", "uri-serial+collide"}[(forceShape+len(sn)+len(which)+len(sg.Name))%4]
					if strings.HasPrefix(sg.Name, "client-own") && which == "this" {
						// answers signed by the client itself: every shape with the ordinary key identifier form
						// and every shape with the serial-only form in which the client carries the CA's serial
						forceAKI = []string{"", "uri-serial+collide"}[round/4]
					} else if round >= 4 {
						break
					}
					v := protocol(func(leaf *pki.CA, serial *big.Int) []byte {
						s := serial
						switch which {
						case "other":
							s = new(big.Int).Add(serial, big.NewInt(1))
						case "other+2^64":
							s = new(big.Int).Add(serial, new(big.Int).Lsh(big.NewInt(0xA7), 64))
						case "other+2^32":
							s = new(big.Int).Add(serial, new(big.Int).Lsh(big.NewInt(1), 32))
						}
						return mkResp(sg, leaf, s, st)
					})
					desc := fmt.Sprintf("signer=%s serial=%s status=%s", sg.Name, which, sn)
					check(desc, "signer-"+sg.Name+".serial-"+which, sg.Authorised && which == "this", st == ocsp.Revoked, v)
					run.Count("matrix_cells", 1)
					if (sg.Name == "issuer" || sg.Name == "client-own-certificate") && round == 3 {
						run.Sample(map[string]any{"cell": desc + " " + v.shape, "observed": fmt.Sprintf("%+v", v)})
					}
				}
				forceShape = -1
				forceAKI = ""
			}
		}
	}
	// ---- error response statuses
	errBodies := map[string][]byte{
		"malformed":     ocsp.MalformedRequestErrorResponse,
		"internalError": ocsp.InternalErrorErrorResponse,
		"tryLater":      ocsp.TryLaterErrorResponse,
		"sigRequired":   ocsp.SigRequredErrorResponse,
		"unauthorized":  ocsp.UnauthorizedErrorResponse,
	}
	for name, body := range errBodies {
		body := body
		v := protocol(func(*pki.CA, *big.Int) []byte { return body })
		check("response status "+name+" (bare)", "status-"+name, false, false, v)
		// the same status wrapped around the bytes of an authentic 'good'/'revoked' answer
		for sn, st := range statuses {
			st := st
			code := map[string]byte{"malformed": 1, "internalError": 2, "tryLater": 3, "sigRequired": 5, "unauthorized": 6}[name]
			v := protocol(func(leaf *pki.CA, serial *big.Int) []byte {
				b := append([]byte(nil), mkResp(signers[0], leaf, serial, st)...)
				tree, err := der.Parse(b)
				if err != nil || len(tree.Children) < 1 || tree.Children[0].Tag != 0x0a {
					panic("harness: unexpected OCSP response layout")
				}
				b[tree.Children[0].Off+2] = code
				return b
			})
			check(fmt.Sprintf("response status %s wrapped around an authentic %s answer", name, sn), "status-"+name+".with-bytes", false, false, v)
		}
	}
	// ---- garbage / truncations / trailing data
	{
		for _, name := range []string{"empty", "html", "trailing-data"} {
			name := name
			v := protocol(func(leaf *pki.CA, serial *big.Int) []byte {
				switch name {
				case "empty":
					return []byte{}
				case "html":
					return []byte("<html>not ocsp</html>")
				}
				return append(mkResp(signers[0], leaf, serial, ocsp.Good), 0x00)
			})
			check("malformed body: "+name, "malformed-"+name, false, false, v)
		}
		step := 7
		if run.Thorough() {
			step = 1
		}
		sample := mkResp(signers[0], w.Int, big.NewInt(1), ocsp.Good)
		for k := 1; k < len(sample); k += step {
			k := k
			v := protocol(func(leaf *pki.CA, serial *big.Int) []byte { return mkResp(signers[0], leaf, serial, ocsp.Good)[:k] })
			check(fmt.Sprintf("truncated authentic answer [:%d]", k), "truncation", false, false, v)
		}
	}
	// ---- single-bit flips
	type region struct {
		name     string
		off, len int
	}
	regionsOf := func(b []byte) []region {
		tree, err := der.Parse(b)
		if err != nil {
			panic(err)
		}
		// OCSPResponse{status, [0]{SEQ{oid, OCTET STRING}}}
		oct := tree.Children[1].Children[0].Children[1]
		innerOff := oct.Off + oct.HdrLen
		inner, err := der.Parse(b[innerOff : innerOff+oct.Len])
		if err != nil {
			panic(err)
		}
		tbs, alg, sig := inner.Children[0], inner.Children[1], inner.Children[2]
		oid := alg.Children[0]
		return []region{
			{"tbsResponseData", innerOff + tbs.Off, tbs.HdrLen + tbs.Len},
			{"signatureAlgorithm-oid", innerOff + oid.Off + oid.HdrLen, oid.Len},
			{"signature", innerOff + sig.Off + sig.HdrLen + 1, sig.Len - 1},
		}
	}
	flipSigners := []signer{signers[0], signers[1]}
	for _, sg := range flipSigners {
		for _, stName := range []string{"good", "revoked"} {
			st := statuses[stName]
			probe := mkResp(sg, w.Int, big.NewInt(1), st)
			regs := regionsOf(probe)
			for _, rg := range regs {
				var bits []int
				total := rg.len * 8
				if run.Thorough() || total <= 400 {
					for i := 0; i < total; i++ {
						bits = append(bits, i)
					}
				} else {
					// seeded sample of the region, always including its first and last byte
					for i := 0; i < 16; i++ {
						bits = append(bits, i, total-1-i)
					}
					for i := 0; i < 250; i++ {
						bits = append(bits, rng.Intn(total))
					}
				}
				for _, bit := range bits {
					bit := bit
					rg := rg
					v := protocol(func(leaf *pki.CA, serial *big.Int) []byte {
						b := append([]byte(nil), mkResp(sg, leaf, serial, st)...)
						r2 := regionsOf(b)
						for _, x := range r2 {
							if x.name == rg.name {
								pos := bit
								if pos >= x.len*8 {
									pos = x.len*8 - 1
								}
								b[x.off+pos/8] ^= 1 << uint(7-pos%8)
							}
						}
						return b
					})
					desc := fmt.Sprintf("bit flip signer=%s status=%s region=%s bit=%d", sg.Name, stName, rg.name, bit)
					check(desc, "bitflip."+rg.name, false, false, v)
					run.Count("bit_flips", 1)
				}
			}
		}
	}
	run.Set("responder_hits", w.OCSP.HitCount(""))
	run.Finish(300)
}
