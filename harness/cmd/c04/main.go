// c04: CRL authenticity under 'verify' — only a CRL signed by an entitled issuer comes into force
// (L2 monitor: strict probe = in-force channel; positive controls + bit flips + signer choices).
package main

import (
	"crypto/x509"
	"fmt"
	"math/big"
	"math/rand"
	"os"
	"path/filepath"
	"strings"
	"time"

	"github.com/gr33nbl00d/caddy-revocation-validator/config"
	"github.com/gr33nbl00d/caddy-revocation-validator/crl"

	"verif/harness/lab/crlgen"
	"verif/harness/lab/der"
	"verif/harness/lab/gen"
	"verif/harness/lab/l2"
	"verif/harness/lab/origin"
	"verif/harness/lab/pki"
	"verif/harness/lab/report"
	"verif/harness/lab/sut"
)

type lab struct {
	run     *report.Run
	org     *origin.Origin
	scratch string
	chk     *crl.CRLRevocationChecker
	used    int
	nwd     int
	trusted []*x509.Certificate
	pathN   int
}

func (l *lab) checker() *crl.CRLRevocationChecker {
	if l.chk != nil && l.used < 150 {
		l.used++
		return l.chk
	}
	if l.chk != nil {
		_ = l.chk.Cleanup()
	}
	l.nwd++
	wd := filepath.Join(l.scratch, fmt.Sprintf("wd%d", l.nwd))
	_ = os.MkdirAll(wd, 0755)
	cfg := &config.CRLConfig{WorkDir: wd, StorageTypeParsed: config.Memory, SignatureValidationModeParsed: config.SignatureValidationModeVerify,
		UpdateIntervalParsed: time.Hour, TrustedSignatureCerts: l.trusted,
		CDPConfig: &config.CDPConfig{CRLFetchModeParsed: config.CRLFetchModeActively, CRLCDPStrict: true}}
	c := &crl.CRLRevocationChecker{}
	if err := c.Provision(cfg, l2.DebugLogger()); err != nil {
		panic("harness: provision: " + err.Error())
	}
	l.chk, l.used = c, 1
	return c
}

// inForce serves doc at a fresh CDP and asks about an unlisted certificate of issuer whose CDP is
// that URL. Returns whether the CRL came into force and the error text otherwise.
func (l *lab) inForce(doc []byte, issuer *pki.CA, above ...*pki.CA) (bool, string) {
	l.pathN++
	p := fmt.Sprintf("/m%d.crl", l.pathN)
	l.org.Set(p, origin.Good(doc))
	leaf := issuer.Issue(pki.CertOpts{CN: "c04 probe", CDP: []string{l.org.URL(p)}})
	chain := []*x509.Certificate{leaf.Cert, issuer.Cert}
	for _, a := range above {
		chain = append(chain, a.Cert)
	}
	st, err := l.checker().IsRevoked(leaf.Cert, [][]*x509.Certificate{chain})
	if err != nil {
		return false, err.Error()
	}
	if st.Revoked {
		return true, "revoked?!"
	}
	return true, ""
}

// inForceFor is like inForce but with a caller-made leaf/chain (end-entity signer cases).
func (l *lab) inForceFor(doc []byte, mk func(url string) (*x509.Certificate, []*x509.Certificate)) (bool, string) {
	l.pathN++
	p := fmt.Sprintf("/m%d.crl", l.pathN)
	l.org.Set(p, origin.Good(doc))
	leaf, chain := mk(l.org.URL(p))
	_, err := l.checker().IsRevoked(leaf, [][]*x509.Certificate{chain})
	if err != nil {
		return false, err.Error()
	}
	return true, ""
}

func main() {
	run := report.New("C04", "exploration")
	run.Rule("in-force channel: strict CDP probe of an unlisted certificate (accepted <=> CRL in force). Positive controls: every supported algorithm x AKI form{absent,keyId,issuer+serial,both} x signer{issuer CA in chain, configured trusted signer}, CA without KeyUsage. Negatives: single-bit flips of tbsCertList, outer algorithm OID and signature bits; signer in {sibling CA same DN, unrelated key, end entity's own key (by name and by AKI), CA whose KeyUsage lacks cRLSign, signer outside chain and not configured}; RSA-PSS and Ed25519. non-trivial = mutant whose unmutated parent was observed in force in this run; distinct = mutant descriptor")
	run.Assume("reference policy: signer certificate is a CA above the end entity in the presented chain or a configured trusted signer, matches issuer name / AKI, KeyUsage (when present) has cRLSign; signature checked by construction (harness signed or flipped)", "outer AlgorithmIdentifier parameters are not flipped (not named by the property); inner/outer algorithm mismatch is recorded, not judged")
	scratch, _ := report.Scratch("C04")
	sut.QuietStderr(filepath.Join(scratch, "stderr.log"))
	si, sn, isShard := report.Shard()
	if !isShard {
		run.RunShards(10, scratch)
		run.Finish(500)
		return
	}
	rng := rand.New(rand.NewSource(run.Seed*1000 + int64(si)))
	root := pki.NewRoot(pki.CertOpts{CN: fmt.Sprintf("C04 root %d", si)})
	ecInt := root.Issue(pki.CertOpts{CN: "C04 EC issuing", IsCA: true})
	ec384Int := root.Issue(pki.CertOpts{CN: "C04 EC384 issuing", IsCA: true, Key: pki.ECKey("P384")})
	rsaInt := root.Issue(pki.CertOpts{CN: "C04 RSA issuing", IsCA: true, Key: pki.RSAKey(0)})
	noKUInt := root.Issue(pki.CertOpts{CN: "C04 no keyusage issuing", IsCA: true, NoKeyUsage: true})
	noCrlSignInt := root.Issue(pki.CertOpts{CN: "C04 certsign-only issuing", IsCA: true, KeyUsage: x509.KeyUsageCertSign | x509.KeyUsageDigitalSignature})
	crlCA := pki.NewRoot(pki.CertOpts{CN: "C04 dedicated CRL signer (configured)"})
	crlCArsa := pki.NewRoot(pki.CertOpts{CN: "C04 dedicated RSA CRL signer (configured)", Key: pki.RSAKey(1)})
	unconfigured := pki.NewRoot(pki.CertOpts{CN: "C04 unconfigured signer"})
	sibling := root.Issue(pki.CertOpts{RawSubject: ecInt.Cert.RawSubject, IsCA: true})
	siblingRSA := root.Issue(pki.CertOpts{RawSubject: rsaInt.Cert.RawSubject, IsCA: true, Key: pki.RSAKey(1)})
	// (Go adds a subjectKeyIdentifier to CA certificates by itself, so this is a non-CA CRL signer)
	noSKISigner := root.Issue(pki.CertOpts{CN: "C04 configured signer without SKI", NoSKI: true, KeyUsage: x509.KeyUsageCRLSign | x509.KeyUsageDigitalSignature})
	if len(noSKISigner.Cert.SubjectKeyId) != 0 {
		panic("harness: signer unexpectedly has a subject key identifier")
	}
	l := &lab{run: run, org: origin.New(), scratch: scratch, trusted: []*x509.Certificate{crlCA.Cert, crlCArsa.Cert, noSKISigner.Cert}}
	defer l.org.Close()

	mkSpec := func(ca *pki.CA, alg crlgen.Alg, aki string, n int) *crlgen.Spec {
		s := gen.SpecFor(ca, gen.Entries(rng, gen.Opts{N: n, Exts: 1}))
		s.Alg = alg
		switch aki {
		case "absent":
			s.Exts = [][]byte{crlgen.CRLNumberExt(big.NewInt(3))}
		case "keyId":
			s.Exts = [][]byte{crlgen.AKIKeyID(ca.Cert.SubjectKeyId), crlgen.CRLNumberExt(big.NewInt(3))}
		case "issuer+serial":
			s.Exts = [][]byte{crlgen.AKIIssuerSerial(nil, ca.Cert.RawIssuer, ca.Cert.SerialNumber), crlgen.CRLNumberExt(big.NewInt(3))}
		case "both":
			s.Exts = [][]byte{crlgen.AKIIssuerSerial(ca.Cert.SubjectKeyId, ca.Cert.RawIssuer, ca.Cert.SerialNumber), crlgen.CRLNumberExt(big.NewInt(3))}
		}
		return s
	}
	type parent struct {
		desc   string
		spec   *crlgen.Spec
		ca     *pki.CA
		above  []*pki.CA
		issuer *pki.CA // issuer of the probe certificates
	}
	var parents []parent
	positives := 0
	// ---- positive controls (every shard runs all: they gate the negatives)
	akiForms := []string{"absent", "keyId", "issuer+serial", "both"}
	ec521Int := root.Issue(pki.CertOpts{CN: "C04 EC521 issuing", IsCA: true, Key: pki.ECKey("P521")})
	for _, ca := range []*pki.CA{ecInt, ec384Int, ec521Int, rsaInt} {
		for _, alg := range gen.AlgsForKey(ca.Key) {
			for _, aki := range akiForms {
				s := mkSpec(ca, alg, aki, 3)
				b := s.Build(ca.Key)
				desc := fmt.Sprintf("positive signer=issuer-in-chain(%s) alg=%s aki=%s", ca.Cert.Subject.CommonName, alg.Name, aki)
				ok, why := l.inForce(b.DER, ca, root)
				run.Eval(1)
				if !ok {
					run.Violation("positive-control.issuer-in-chain."+alg.Name+".aki-"+aki, desc+" did not come into force: "+why, &report.Replay{Case: desc, Files: map[string][]byte{"crl.der": b.DER}})
					continue
				}
				positives++
				run.NonTrivial(desc)
				if aki == "keyId" || aki == "absent" {
					parents = append(parents, parent{desc: desc, spec: s, ca: ca, above: []*pki.CA{root}, issuer: ca})
				}
			}
		}
	}
	// configured trusted signer: the probe's chain does not contain the CRL signer
	for _, tc := range []*pki.CA{crlCA, crlCArsa} {
		for _, aki := range []string{"absent", "keyId"} {
			alg := crlgen.AlgFor(tc.Key)
			s := mkSpec(tc, alg, aki, 2)
			b := s.Build(tc.Key)
			desc := fmt.Sprintf("positive signer=configured-trusted(%s) alg=%s aki=%s", tc.Cert.Subject.CommonName, alg.Name, aki)
			ok, why := l.inForce(b.DER, ecInt, root)
			run.Eval(1)
			if !ok {
				run.Violation("positive-control.configured-trusted-signer.aki-"+aki, desc+" did not come into force: "+why, &report.Replay{Case: desc, Files: map[string][]byte{"crl.der": b.DER}})
				continue
			}
			positives++
			run.NonTrivial(desc)
		}
	}
	// CA without any KeyUsage extension is entitled ("when present")
	{
		s := mkSpec(noKUInt, crlgen.AlgFor(noKUInt.Key), "keyId", 2)
		b := s.Build(noKUInt.Key)
		ok, why := l.inForce(b.DER, noKUInt, root)
		run.Eval(1)
		if !ok {
			run.Violation("positive-control.ca-without-keyusage-extension", "CRL of a CA without KeyUsage extension did not come into force: "+why, nil)
		} else {
			positives++
			run.NonTrivial("positive signer=ca-without-keyusage")
		}
	}
	if run.Thorough() {
		for _, ca := range []*pki.CA{ecInt, rsaInt} {
			for _, n := range []int{0, 25, 120} {
				s := mkSpec(ca, crlgen.AlgFor(ca.Key), "both", n)
				for i := range s.Entries {
					if i%3 == 0 {
						s.Entries[i].Exts = append(s.Entries[i].Exts, crlgen.InvalidityExt(gen.BaseTime))
					}
				}
				b := s.Build(ca.Key)
				desc := fmt.Sprintf("positive(thorough) signer=issuer-in-chain(%s) n=%d aki=both", ca.Cert.Subject.CommonName, n)
				ok, why := l.inForce(b.DER, ca, root)
				run.Eval(1)
				if !ok {
					run.Violation("positive-control.thorough-parent", desc+" did not come into force: "+why, nil)
					continue
				}
				positives++
				parents = append(parents, parent{desc: desc, spec: s, ca: ca, above: []*pki.CA{root}, issuer: ca})
			}
		}
	}
	run.Count("positive_controls_in_force", int64(positives))

	neg := func(class, desc string, doc []byte, issuer *pki.CA, above ...*pki.CA) {
		ok, _ := l.inForce(doc, issuer, above...)
		run.Eval(1)
		if ok {
			run.Violation(class, desc+" came into force", &report.Replay{Case: desc, Files: map[string][]byte{"crl.der": doc}})
			return
		}
		run.NonTrivial(desc)
	}

	// ---- (b) signer choices (cheap, every shard does its share by index)
	type signerCase struct {
		class, desc string
		build       func() ([]byte, *pki.CA, []*pki.CA)
	}
	var scs []signerCase
	for _, aki := range []string{"absent", "keyId"} {
		aki := aki
		scs = append(scs,
			signerCase{"signer-sibling-ca-same-name.aki-" + aki, "CRL named like the issuer, signed by a sibling CA with the same DN and another key, aki=" + aki, func() ([]byte, *pki.CA, []*pki.CA) {
				s := mkSpec(ecInt, crlgen.AlgFor(sibling.Key), aki, 2)
				if aki == "keyId" {
					s.Exts = [][]byte{crlgen.AKIKeyID(ecInt.Cert.SubjectKeyId)}
				}
				return s.Build(sibling.Key).DER, ecInt, []*pki.CA{root}
			}},
			signerCase{"signer-sibling-ca-same-name-rsa.aki-" + aki, "RSA: CRL named like the issuer, signed by sibling RSA CA, aki=" + aki, func() ([]byte, *pki.CA, []*pki.CA) {
				s := mkSpec(rsaInt, crlgen.AlgByName("sha256WithRSA"), aki, 2)
				if aki == "keyId" {
					s.Exts = [][]byte{crlgen.AKIKeyID(rsaInt.Cert.SubjectKeyId)}
				}
				return s.Build(siblingRSA.Key).DER, rsaInt, []*pki.CA{root}
			}},
			signerCase{"signer-unrelated-key.aki-" + aki, "CRL named like the issuer, signed by an unrelated key, aki=" + aki, func() ([]byte, *pki.CA, []*pki.CA) {
				s := mkSpec(ecInt, crlgen.AlgFor(ecInt.Key), aki, 2)
				return s.Build(pki.ECKey("P256")).DER, ecInt, []*pki.CA{root}
			}},
			signerCase{"signer-ca-without-crlsign.aki-" + aki, "CRL correctly signed by the issuing CA whose KeyUsage lacks cRLSign, aki=" + aki, func() ([]byte, *pki.CA, []*pki.CA) {
				s := mkSpec(noCrlSignInt, crlgen.AlgFor(noCrlSignInt.Key), aki, 2)
				return s.Build(noCrlSignInt.Key).DER, noCrlSignInt, []*pki.CA{root}
			}},
			signerCase{"signer-not-in-chain-not-configured.aki-" + aki, "CRL correctly signed by a CA that is neither in the chain nor configured, aki=" + aki, func() ([]byte, *pki.CA, []*pki.CA) {
				s := mkSpec(unconfigured, crlgen.AlgFor(unconfigured.Key), aki, 2)
				return s.Build(unconfigured.Key).DER, ecInt, []*pki.CA{root}
			}},
		)
	}
	// signer candidates must be selected by a real match: an AKI with a zero-length key identifier
	// must not select configured signers that have no subject key identifier at all
	scs = append(scs, signerCase{"signer-without-ski.aki-empty-keyid", "CRL under the issuer's name with a zero-length AKI keyIdentifier, signed by a configured signer that has no subjectKeyIdentifier", func() ([]byte, *pki.CA, []*pki.CA) {
		s := mkSpec(ecInt, crlgen.AlgFor(noSKISigner.Key), "absent", 2)
		s.Exts = [][]byte{der.Ext("2.5.29.35", false, der.Seq(der.ImplicitPrim(0, nil))), crlgen.CRLNumberExt(big.NewInt(3))}
		return s.Build(noSKISigner.Key).DER, ecInt, []*pki.CA{root}
	}}, signerCase{"signer-without-ski.aki-absent", "CRL under the issuer's name without AKI, signed by a configured signer with another name and no subjectKeyIdentifier", func() ([]byte, *pki.CA, []*pki.CA) {
		s := mkSpec(ecInt, crlgen.AlgFor(noSKISigner.Key), "absent", 2)
		return s.Build(noSKISigner.Key).DER, ecInt, []*pki.CA{root}
	}})
	// AKI in the issuer+serial form that does not identify the signer: the serial equals the serial of a
	// CA in the chain (the root), the authorityCertIssuer is not that CA's issuer (a URI / a DNS name /
	// another directory name / absent). Signed by the root's key under the issuing CA's name.
	for _, form := range []string{"uri-issuer", "dns-issuer", "other-directory-name", "serial-only"} {
		form := form
		scs = append(scs, signerCase{"signer-selected-by-serial-only.aki-" + form, "CRL under the issuing CA's name signed by the root, AKI = serial of the root + authorityCertIssuer form " + form, func() ([]byte, *pki.CA, []*pki.CA) {
			s := mkSpec(ecInt, crlgen.AlgFor(root.Key), "absent", 2)
			var parts [][]byte
			switch form {
			case "uri-issuer":
				parts = append(parts, der.TLV(0xa1, der.ImplicitPrim(6, []byte("http://ca.example.org/root"))))
			case "dns-issuer":
				parts = append(parts, der.TLV(0xa1, der.ImplicitPrim(2, []byte("ca.example.org"))))
			case "other-directory-name":
				parts = append(parts, der.TLV(0xa1, der.TLV(0xa4, ecInt.Cert.RawSubject)))
			}
			parts = append(parts, der.ImplicitPrim(2, der.IntContent(root.Cert.SerialNumber)))
			s.Exts = [][]byte{der.Ext("2.5.29.35", false, der.Seq(parts...)), crlgen.CRLNumberExt(big.NewInt(4))}
			return s.Build(root.Key).DER, ecInt, []*pki.CA{root}
		}})
	}
	for i, sc := range scs {
		if i%sn != si {
			continue
		}
		doc, iss, above := sc.build()
		neg(sc.class, sc.desc, doc, iss, above...)
	}
	// end entity signs the CRL for its own CDP: issuer = its subject
	if si == 0%sn || true {
		for _, variant := range []string{"absent/bc+ku", "keyId/bc+ku", "absent/no-bc", "keyId/no-bc", "absent/no-bc-no-ku", "keyId/no-bc-no-ku", "keyId/bc-no-ku"} {
			aki := strings.SplitN(variant, "/", 2)[0]
			shape := strings.SplitN(variant, "/", 2)[1]
			ok, _ := l.inForceFor(nil, func(url string) (*x509.Certificate, []*x509.Certificate) {
				ee := ecInt.Issue(pki.CertOpts{CN: fmt.Sprintf("c04 self-serving end entity %d", rng.Int63()), CDP: []string{url},
					NoBasicConstraints: strings.Contains(shape, "no-bc"), NoKeyUsage: strings.Contains(shape, "no-ku")})
				s := gen.SpecFor(ee, nil)
				s.Exts = [][]byte{crlgen.CRLNumberExt(big.NewInt(1))}
				if aki == "keyId" {
					s.Exts = append(s.Exts, crlgen.AKIKeyID(ee.Cert.SubjectKeyId))
				}
				doc := s.Build(ee.Key).DER
				l.org.Set(url[len(l.org.URL("")):], origin.Good(doc))
				return ee.Cert, []*x509.Certificate{ee.Cert, ecInt.Cert, root.Cert}
			})
			run.Eval(1)
			desc := "CRL issued under the client certificate's own subject and signed with the client's own key, aki=" + aki + " end-entity-extensions=" + shape
			if ok {
				run.Violation("signer-end-entity-own-key.aki-"+aki+"."+shape, desc+" came into force", &report.Replay{Case: desc})
			} else {
				run.NonTrivial(desc)
			}
		}
	}
	// ---- (c) unsupported algorithms, correctly signed by the issuer's key
	if si%sn == 0 || true {
		s := mkSpec(rsaInt, crlgen.AlgByName("rsassaPss"), "keyId", 2)
		neg("alg-rsa-pss", "RSA-PSS signed CRL of the issuer", s.Build(rsaInt.Key).DER, rsaInt, root)
		edCA := root.Issue(pki.CertOpts{CN: "C04 ed25519 issuing", IsCA: true, Key: pki.EdKey()})
		s2 := mkSpec(edCA, crlgen.AlgByName("ed25519"), "keyId", 2)
		neg("alg-ed25519", "Ed25519 signed CRL of the issuer", s2.Build(edCA.Key).DER, edCA, root)
		// (d) inner != outer algorithm: recorded only
		s3 := mkSpec(rsaInt, crlgen.AlgByName("sha256WithRSA"), "keyId", 2)
		s3.InnerAlgID = crlgen.AlgByName("sha1WithRSA").AlgID()
		ok, _ := l.inForce(s3.Build(rsaInt.Key).DER, rsaInt, root)
		if ok {
			run.Count("observed_inner_outer_algorithm_mismatch_accepted", 1)
		}
	}

	// ---- (a) bit flips
	type region struct {
		name     string
		off, len int
	}
	for pi, p := range parents {
		// a parent document (signatures are randomised, so its bytes exist only in this process)
		// belongs to exactly one worker, which flips every bit of it
		if pi%sn != si {
			continue
		}
		full := false
		// quick: flip every bit of one ECDSA and one RSA parent, sample the others
		if p.spec.Alg.Name == "ecdsaWithSHA256" && p.ca == ecInt && pi%2 == 0 {
			full = true
		}
		if p.spec.Alg.Name == "sha256WithRSA" && pi%2 == 0 {
			full = true
		}
		// a complete flip of every parent costs ~30 s on 10 worker processes: do it in both tiers;
		// thorough adds bigger parents (more entries, entry extensions) below
		full = true
		b := p.spec.Build(p.ca.Key)
		tree, err := der.Parse(b.DER)
		if err != nil {
			panic(err)
		}
		alg := tree.Children[1]
		oid := alg.Children[0]
		sig := tree.Children[2]
		regs := []region{
			{"tbsCertList", b.Layout.TBSStart, b.Layout.TBSEnd - b.Layout.TBSStart},
			{"signatureAlgorithm-oid", oid.Off + oid.HdrLen, oid.Len},
			{"signatureValue", sig.Off + sig.HdrLen + 1, sig.Len - 1},
		}
		// parent must be in force in this shard too (already checked above as positive control)
		for _, rg := range regs {
			total := rg.len * 8
			var bits []int
			if full {
				for i := 0; i < total; i++ {
					bits = append(bits, i)
				}
			} else {
				for i := 0; i < 100; i++ {
					bits = append(bits, rng.Intn(total))
				}
			}
			for _, bit := range bits {
				m := append([]byte(nil), b.DER...)
				m[rg.off+bit/8] ^= 1 << uint(7-bit%8)
				desc := fmt.Sprintf("bit flip parent=[%s] region=%s bit=%d", p.desc, rg.name, bit)
				ok, _ := l.inForce(m, p.issuer, p.above...)
				run.Eval(1)
				run.Count("bit_flips", 1)
				if ok {
					run.Violation("bitflip."+rg.name+"."+p.spec.Alg.Family, desc+" came into force", &report.Replay{Case: desc, Files: map[string][]byte{"crl.der": m, "parent.der": b.DER}})
					continue
				}
				run.NonTrivial(desc)
			}
		}
		// byte insert/delete at TLV boundaries
		var nodes []*der.Node
		tree.Walk(func(n *der.Node) { nodes = append(nodes, n) })
		for _, n := range nodes {
			if n == tree {
				continue
			}
			for _, kind := range []string{"insert", "delete"} {
				var m []byte
				if kind == "insert" {
					m = append(append(append([]byte(nil), b.DER[:n.Off]...), 0x00), b.DER[n.Off:]...)
				} else {
					m = append(append([]byte(nil), b.DER[:n.Off]...), b.DER[n.Off+1:]...)
				}
				desc := fmt.Sprintf("byte %s at node %s parent=[%s]", kind, n.Path, p.desc)
				ok, _ := l.inForce(m, p.issuer, p.above...)
				run.Eval(1)
				if ok {
					run.Violation("byte-"+kind+".tlv-boundary", desc+" came into force", &report.Replay{Case: desc, Files: map[string][]byte{"crl.der": m}})
					continue
				}
				run.NonTrivial(desc)
			}
		}
		if pi%5 == 0 {
			run.Sample(map[string]any{"parent": p.desc, "der_len": len(b.DER), "tbs_bits": regs[0].len * 8, "sig_bits": regs[2].len * 8, "all_bits_flipped": full})
		}
	}
	if l.chk != nil {
		_ = l.chk.Cleanup()
	}
	run.FinishShard()
}
