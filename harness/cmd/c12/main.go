// c12: crash consistency of disk storage — SIGKILL at every hook point / after the j-th staged
// write / at seeded instants during a first load or a refresh, then a restart on the crash image
// with the origin down; the restarted checker must answer as "not loaded", "complete old" or
// "complete new (only if it had been accepted)", and leave no temporary artefacts.
package main

import (
	"crypto/ecdsa"
	"crypto/x509"
	"encoding/json"
	"fmt"
	"math/big"
	"math/rand"
	"os"
	"os/exec"
	"path/filepath"
	"regexp"
	"sort"
	"strings"
	"sync"
	"sync/atomic"
	"syscall"
	"time"

	"github.com/gr33nbl00d/caddy-revocation-validator/crl/crlreader"
	"github.com/gr33nbl00d/caddy-revocation-validator/crl/crlstore"

	"verif/harness/lab/crlgen"
	"verif/harness/lab/gen"
	"verif/harness/lab/l2"
	"verif/harness/lab/origin"
	"verif/harness/lab/pki"
	"verif/harness/lab/report"
	"verif/harness/lab/sut"
)

type childCfg struct {
	Dir        string // case directory: contains work_dir "wd", pki files, outputs
	URL        string
	Refresh    bool  // refresh scenario (store already holds the old list)
	KillAtHit  int64 // k-th hook hit => SIGKILL self (0 = never)
	KillAtIns  int64 // j-th insert into a temporary store => SIGKILL self (0 = never)
	ProbeFiles []string
	WDForm     string // spelling / kind of the configured work_dir, see wdOf
	SigMode    string // signature_validation_mode of the run ("" = verify)
}

func (c childCfg) sigMode() string {
	if c.SigMode == "" {
		return "verify"
	}
	return c.SigMode
}

// wdOf returns the work_dir as it is configured for a case directory. Every form names the same kind
// of place (a directory below the case directory); they differ in spelling or in being a link.
func wdOf(dir, form string) string {
	switch form {
	case "glob-characters":
		return filepath.Join(dir, "wd [prod] *?")
	case "trailing-slash":
		return filepath.Join(dir, "wd") + "/"
	case "dot-segment":
		return dir + "/./wd"
	case "symbolic-link":
		return filepath.Join(dir, "wd-current") // -> wd-real (relative link, created by mkWD)
	}
	return filepath.Join(dir, "wd")
}

func mkWD(dir, form string) {
	switch form {
	case "symbolic-link":
		_ = os.MkdirAll(filepath.Join(dir, "wd-real"), 0755)
		_ = os.Symlink("wd-real", filepath.Join(dir, "wd-current"))
	default:
		_ = os.MkdirAll(wdOf(dir, form), 0755)
	}
}

var wdForms = []string{"plain", "glob-characters", "symbolic-link", "trailing-slash", "dot-segment"}

type probeSet struct {
	Names   []string
	Serials []string
}

// ------------------------------------------------------------------ children

func loadPKI(dir string) (*pki.CA, *x509.Certificate) {
	rootDER, _ := os.ReadFile(filepath.Join(dir, "root.der"))
	intDER, _ := os.ReadFile(filepath.Join(dir, "int.der"))
	keyDER, _ := os.ReadFile(filepath.Join(dir, "int.key"))
	root, _ := x509.ParseCertificate(rootDER)
	in, _ := x509.ParseCertificate(intDER)
	key, err := x509.ParseECPrivateKey(keyDER)
	if err != nil {
		fmt.Println("child: key:", err)
		os.Exit(3)
	}
	return &pki.CA{Cert: in, Key: key}, root
}

type killStore struct {
	crlstore.CRLStore
	n      *atomic.Int64
	killAt int64
}

func (s *killStore) InsertRevokedCert(e *crlreader.CRLEntry) error {
	err := s.CRLStore.InsertRevokedCert(e)
	if s.n.Add(1) == s.killAt {
		_ = syscall.Kill(os.Getpid(), syscall.SIGKILL)
		time.Sleep(time.Hour)
	}
	return err
}

// Update unwraps a wrapped staging store, so that the real stores see each other.
func (s *killStore) Update(n crlstore.CRLStore) error {
	if k, ok := n.(*killStore); ok {
		n = k.CRLStore
	}
	return s.CRLStore.Update(n)
}

type killFactory struct {
	real   crlstore.Factory
	n      atomic.Int64
	killAt int64
}

func (f *killFactory) CreateStore(id string, temp bool) (crlstore.CRLStore, error) {
	s, err := f.real.CreateStore(id, temp)
	// every store is wrapped, the staging ones and the live one: a load path that writes to the live
	// store directly has the same crash points
	if err != nil || f.killAt == 0 {
		return s, err
	}
	return &killStore{CRLStore: s, n: &f.n, killAt: f.killAt}, nil
}

func childCrash(cfgPath string) {
	var cfg childCfg
	b, _ := os.ReadFile(cfgPath)
	_ = json.Unmarshal(b, &cfg)
	sut.QuietStderr(filepath.Join(cfg.Dir, "crash.stderr.log"))
	ca, root := loadPKI(cfg.Dir)
	hitLog, _ := os.OpenFile(filepath.Join(cfg.Dir, "hits.log"), os.O_CREATE|os.O_WRONLY|os.O_APPEND, 0644)
	var hits atomic.Int64
	l2.InstallHooks()
	armed := atomic.Bool{}
	l2.SetExtraHook(func(name string) {
		if !armed.Load() {
			return
		}
		n := hits.Add(1)
		_, _ = hitLog.WriteString(fmt.Sprintf("%d %s\n", n, name))
		if cfg.KillAtHit > 0 && n == cfg.KillAtHit {
			_ = syscall.Kill(os.Getpid(), syscall.SIGKILL)
			time.Sleep(time.Hour)
		}
	})
	chk, err := l2.Start(l2.Opts{WorkDir: wdOf(cfg.Dir, cfg.WDForm), Storage: "disk", SigMode: cfg.sigMode(), Fetch: "actively", Strict: true})
	if err != nil {
		fmt.Println("child: provision:", err)
		os.Exit(4)
	}
	kf := &killFactory{real: chk.C.VerifRepository().Factory, killAt: cfg.KillAtIns}
	chk.C.VerifRepository().Factory = kf
	leaf := ca.Leaf(pki.NextSerial(), []string{cfg.URL}, nil)
	chain := []*x509.Certificate{leaf, ca.Cert, root}
	if cfg.Refresh {
		// re-open the persisted list first (not part of the crash window)
		_, _ = chk.Ask(chain)
		armed.Store(true)
		chk.Refresh()
	} else {
		armed.Store(true)
		_, _ = chk.Ask(chain)
	}
	armed.Store(false)
	chk.Stop()
	_ = os.WriteFile(filepath.Join(cfg.Dir, "completed"), []byte(fmt.Sprintf("%d %d", hits.Load(), kf.n.Load())), 0644)
}

type restartOut struct {
	ProvisionErr string            `json:"provision_err"`
	Panic        string            `json:"panic"`
	TmpLeft      []string          `json:"tmp_left"`
	Listing      []string          `json:"listing"`
	ListingAfter []string          `json:"listing_after_lookups"`
	Probes       map[string]string `json:"probes"`
}

var tmpRe = regexp.MustCompile(`^crl_.*_tmp$`)

func childRestart(cfgPath string) {
	var cfg childCfg
	b, _ := os.ReadFile(cfgPath)
	_ = json.Unmarshal(b, &cfg)
	sut.QuietStderr(filepath.Join(cfg.Dir, "restart.stderr.log"))
	out := restartOut{Probes: map[string]string{}}
	defer func() {
		if r := recover(); r != nil {
			out.Panic = fmt.Sprint(r)
		}
		ob, _ := json.Marshal(out)
		_ = os.WriteFile(filepath.Join(cfg.Dir, "restart.json"), ob, 0644)
	}()
	ca, root := loadPKI(cfg.Dir)
	var ps probeSet
	pb, _ := os.ReadFile(filepath.Join(cfg.Dir, "probes.json"))
	_ = json.Unmarshal(pb, &ps)
	wd := wdOf(cfg.Dir, cfg.WDForm)
	// the restarted process runs two validators (two server blocks); the one under test is provisioned second
	otherWD := filepath.Join(cfg.Dir, "wd-of-another-validator")
	_ = os.MkdirAll(otherWD, 0755)
	if other, oerr := l2.Start(l2.Opts{WorkDir: otherWD, Storage: "disk", SigMode: "verify", Fetch: "actively"}); oerr == nil {
		defer other.Stop()
	}
	chk, err := l2.Start(l2.Opts{WorkDir: wd, Storage: "disk", SigMode: cfg.sigMode(), Fetch: "actively", Strict: true})
	if err != nil {
		out.ProvisionErr = err.Error()
		return
	}
	ents, _ := os.ReadDir(wd)
	for _, e := range ents {
		out.Listing = append(out.Listing, e.Name())
		if tmpRe.MatchString(e.Name()) {
			out.TmpLeft = append(out.TmpLeft, e.Name())
		}
	}
	for i, name := range ps.Names {
		s, _ := new(big.Int).SetString(ps.Serials[i], 10)
		leaf := ca.Leaf(s, []string{cfg.URL}, nil)
		rev, err := chk.Ask([]*x509.Certificate{leaf, ca.Cert, root})
		switch {
		case err != nil:
			out.Probes[name] = "denied"
		case rev:
			out.Probes[name] = "revoked"
		default:
			out.Probes[name] = "accepted"
		}
	}
	// temp artefacts must also be gone after the lookups (a lookup with the origin down creates and removes some)
	ents, _ = os.ReadDir(wd)
	for _, e := range ents {
		out.ListingAfter = append(out.ListingAfter, e.Name())
		if tmpRe.MatchString(e.Name()) {
			out.TmpLeft = append(out.TmpLeft, "after-lookups:"+e.Name())
		}
	}
	chk.Stop()
}

// ------------------------------------------------------------------ parent

type scenario struct {
	Refresh  bool
	Accepted bool
	N        int
	WD       string // work_dir form
	SigMode  string // "" = verify; "none" only for scenarios whose list is acceptable anyway
}

func (s scenario) String() string {
	return fmt.Sprintf("%s sig=%s n=%d work_dir=%s sigmode=%s", map[bool]string{true: "refresh", false: "first-load"}[s.Refresh], map[bool]string{true: "accepted", false: "rejected"}[s.Accepted], s.N, s.WD, map[string]string{"": "verify"}[s.SigMode]+s.SigMode)
}

type lab struct {
	run     *report.Run
	bin     string
	scratch string
	org     *origin.Origin
	root    *pki.CA
	in      *pki.CA
	n       atomic.Int64
}

func (l *lab) writePKI(dir string) {
	_ = os.WriteFile(filepath.Join(dir, "root.der"), l.root.Cert.Raw, 0644)
	_ = os.WriteFile(filepath.Join(dir, "int.der"), l.in.Cert.Raw, 0644)
	kb, _ := x509.MarshalECPrivateKey(l.in.Key.(*ecdsa.PrivateKey))
	_ = os.WriteFile(filepath.Join(dir, "int.key"), kb, 0600)
}

func (l *lab) runChild(mode string, cfg childCfg, timeout time.Duration) (exit int, signaled bool) {
	cb, _ := json.Marshal(cfg)
	cp := filepath.Join(cfg.Dir, mode+".cfg.json")
	_ = os.WriteFile(cp, cb, 0644)
	cmd := exec.Command(l.bin, mode, cp)
	logf, _ := os.Create(filepath.Join(cfg.Dir, mode+".log"))
	defer logf.Close()
	cmd.Stdout, cmd.Stderr = logf, logf
	if err := cmd.Start(); err != nil {
		return -1, false
	}
	done := make(chan error, 1)
	go func() { done <- cmd.Wait() }()
	select {
	case err := <-done:
		if ee, ok := err.(*exec.ExitError); ok {
			if ws, ok := ee.Sys().(syscall.WaitStatus); ok && ws.Signaled() {
				return -1, true
			}
			return ee.ExitCode(), false
		}
		return 0, false
	case <-time.After(timeout):
		_ = cmd.Process.Kill()
		<-done
		return -2, false
	}
}

func keys(m map[string]bool) []string {
	var out []string
	for k := range m {
		out = append(out, k)
	}
	sort.Strings(out)
	return out
}

func copyDir(src, dst string) {
	_ = exec.Command("cp", "-r", src, dst).Run()
}

func main() {
	if len(os.Args) >= 3 && os.Args[1] == "child-crash" {
		childCrash(os.Args[2])
		return
	}
	if len(os.Args) >= 3 && os.Args[1] == "child-restart" {
		childRestart(os.Args[2])
		return
	}
	run := report.New("C12", "fault_enumeration")
	run.Rule("crash run = child process (disk backend, strict CDP, healthy origin in the parent) doing a first load or a refresh, killed with SIGKILL (a) at the k-th hook hit for every k until the run completes without reaching k, (b) right after the j-th write into the staging store for j in {1,2,mid,last-1,last}, (c) thorough: at seeded instants from outside, (d) while the body of the download is arriving (the origin sends half of it, then the child is killed); restart run = fresh child on the crash image with the origin down, in which another validator with its own work_dir is provisioned first; scenarios {first load, refresh} x signature {accepted, rejected} x size, signature mode verify (and none for two acceptable-list scenarios), each with one of five work_dir forms (plain, name with glob characters and spaces, symbolic link to a directory, trailing slash, dot segment); oracle: verdict vector over probes {first/middle/last entry unique to old, to new, common, never} equals 'not loaded' (all denied), 'complete old' or 'complete new' (new only if the scenario's CRL is acceptable), no crl_*_tmp entry remains after Provision and work_dir holds no name that a run without crash does not leave behind, restart neither fails nor panics; non-trivial = crash pair in which the child really died at the crash point; distinct = scenario + crash point")
	run.Assume("process death only (SIGKILL): nothing is fsynced by the code and a lost page cache cannot be simulated here", "the kill happens inside the hook call, i.e. between the statements around the hook site")
	scratch, _ := report.Scratch("C12")
	bin := os.Getenv("VERIF_ENGINE_BIN")
	if bin == "" {
		bin, _ = os.Executable()
	}
	root := pki.NewRoot(pki.CertOpts{CN: "C12 root"})
	l := &lab{run: run, bin: bin, scratch: scratch, org: origin.New(), root: root, in: root.Issue(pki.CertOpts{CN: "C12 issuing", IsCA: true})}
	defer l.org.Close()
	rng := rand.New(rand.NewSource(run.Seed))
	sizes := []int{40, 3000}
	if run.Thorough() {
		sizes = []int{40, 60000}
	}
	var scns []scenario
	for _, n := range sizes {
		for _, refresh := range []bool{false, true} {
			for _, acc := range []bool{true, false} {
				sm := ""
				if acc && n == sizes[1] {
					sm = "none" // no signature check at all: the crash windows of this mode's own load path
				}
				scns = append(scns, scenario{refresh, acc, n, wdForms[len(scns)%len(wdForms)], sm})
			}
		}
	}
	var wg sync.WaitGroup
	sem := make(chan struct{}, 8)
	for si, sc := range scns {
		wg.Add(1)
		sem <- struct{}{}
		go func(si int, sc scenario, seed int64) {
			defer wg.Done()
			defer func() { <-sem }()
			l.runScenario(si, sc, rand.New(rand.NewSource(seed)))
		}(si, sc, rng.Int63())
	}
	wg.Wait()
	run.Finish(20)
}

func (l *lab) runScenario(si int, sc scenario, rng *rand.Rand) {
	run := l.run
	base := filepath.Join(l.scratch, fmt.Sprintf("s%d-base", si))
	mkWD(base, sc.WD)
	l.writePKI(base)
	path := fmt.Sprintf("/s%d.crl", si)
	url := l.org.URL(path)
	// lists: unique entries at first / middle / last positions
	mk := func(tag int) ([]crlgen.Entry, []*big.Int) {
		filler := gen.Entries(rng, gen.Opts{N: sc.N, SerialWidth: 10})
		u := []*big.Int{gen.SerialOfWidth(rng, 12, false), gen.SerialOfWidth(rng, 12, false), gen.SerialOfWidth(rng, 12, false)}
		es := []crlgen.Entry{{Serial: u[0], Date: gen.BaseTime}}
		es = append(es, filler[:sc.N/2]...)
		es = append(es, crlgen.Entry{Serial: u[1], Date: gen.BaseTime})
		es = append(es, filler[sc.N/2:]...)
		es = append(es, crlgen.Entry{Serial: u[2], Date: gen.BaseTime})
		return es, u
	}
	common := crlgen.Entry{Serial: gen.SerialOfWidth(rng, 13, false), Date: gen.BaseTime}
	never := gen.SerialOfWidth(rng, 14, false)
	oldEs, oldU := mk(0)
	newEs, newU := mk(1)
	oldEs = append(oldEs[:len(oldEs)/3], append([]crlgen.Entry{common}, oldEs[len(oldEs)/3:]...)...)
	newEs = append(newEs[:len(newEs)/3], append([]crlgen.Entry{common}, newEs[len(newEs)/3:]...)...)
	oldDoc := gen.SpecFor(l.in, oldEs).Build(l.in.Key).DER
	newDoc := gen.SpecFor(l.in, newEs).Build(l.in.Key).DER
	if !sc.Accepted {
		newDoc[len(newDoc)-1] ^= 1
	}
	ps := probeSet{Names: []string{"old-first", "old-mid", "old-last", "new-first", "new-mid", "new-last", "common", "never"}}
	for _, s := range append(append(append([]*big.Int{}, oldU...), newU...), common.Serial, never) {
		ps.Serials = append(ps.Serials, s.String())
	}
	pb, _ := json.Marshal(ps)
	_ = os.WriteFile(filepath.Join(base, "probes.json"), pb, 0644)
	totalInserts := int64(len(newEs))
	if sc.Refresh {
		// base image: old list loaded by a run that exits cleanly
		l.org.Set(path, origin.Good(oldDoc))
		exit, sig := l.runChild("child-crash", childCfg{Dir: base, URL: url, WDForm: sc.WD, SigMode: sc.SigMode}, 120*time.Second)
		if exit != 0 || sig {
			run.Inconclusive(fmt.Sprintf("%s: base image could not be created (exit %d)", sc, exit))
			return
		}
		_ = os.Remove(filepath.Join(base, "completed"))
		_ = os.Remove(filepath.Join(base, "hits.log"))
	}
	vectors := map[string]map[string]string{
		"not-loaded":   {},
		"complete-old": {},
		"complete-new": {},
	}
	for _, n := range ps.Names {
		vectors["not-loaded"][n] = "denied"
		switch {
		case n == "never":
			vectors["complete-old"][n], vectors["complete-new"][n] = "accepted", "accepted"
		case n == "common":
			vectors["complete-old"][n], vectors["complete-new"][n] = "revoked", "revoked"
		case strings.HasPrefix(n, "old-"):
			vectors["complete-old"][n], vectors["complete-new"][n] = "revoked", "accepted"
		default:
			vectors["complete-old"][n], vectors["complete-new"][n] = "accepted", "revoked"
		}
	}
	classify := func(p map[string]string) string {
		for name, v := range vectors {
			same := true
			for _, n := range ps.Names {
				if p[n] != v[n] {
					same = false
				}
			}
			if same {
				return name
			}
		}
		return "mixed-or-partial"
	}
	// names found in work_dir after the restart of every crash image; judged at the end of the
	// scenario against the names a run without crash leaves behind (whatever the temporary
	// artefacts are called, a crash image must not keep more than that)
	listings := map[string][]string{}
	var reference map[string]bool
	evaluate := func(point string, cdir string, died bool) {
		run.Eval(1)
		// restart with the origin down
		l.org.Set(path, origin.Status(500, []byte("down")))
		exit, sig := l.runChild("child-restart", childCfg{Dir: cdir, URL: url, WDForm: sc.WD, SigMode: sc.SigMode}, 120*time.Second)
		desc := fmt.Sprintf("%s crash-point=%s", sc, point)
		var ro restartOut
		rb, err := os.ReadFile(filepath.Join(cdir, "restart.json"))
		if err == nil {
			_ = json.Unmarshal(rb, &ro)
		}
		keyBase := fmt.Sprintf("%s.%s", map[bool]string{true: "refresh", false: "first-load"}[sc.Refresh], map[bool]string{true: "accepted", false: "rejected"}[sc.Accepted])
		pointClass := regexp.MustCompile(`#\d+`).ReplaceAllString(point, "")
		rp := &report.Replay{Case: map[string]any{"scenario": sc.String(), "crash_point": point, "restart": ro, "exit": exit}}
		if err != nil || exit != 0 || sig {
			logb, _ := os.ReadFile(filepath.Join(cdir, "child-restart.log"))
			run.Violation(keyBase+".restart-crashed.after-"+pointClass, fmt.Sprintf("%s: the restarted process died (exit %d signal %v): %s", desc, exit, sig, string(logb[:min(len(logb), 600)])), rp)
			return
		}
		if ro.Panic != "" {
			run.Violation(keyBase+".restart-panicked.after-"+pointClass, desc+": "+ro.Panic, rp)
			return
		}
		if ro.ProvisionErr != "" {
			run.Violation(keyBase+".restart-provision-failed.after-"+pointClass, desc+": "+ro.ProvisionErr, rp)
			return
		}
		if len(ro.TmpLeft) > 0 {
			run.Violation(keyBase+".temporary-artefacts-left.after-"+pointClass, fmt.Sprintf("%s: %v remain in work_dir after startup", desc, ro.TmpLeft), rp)
			return
		}
		listings[point] = append(append([]string{}, ro.Listing...), ro.ListingAfter...)
		if !died && strings.HasPrefix(point, "none") {
			reference = map[string]bool{}
			for _, n := range listings[point] {
				reference[n] = true
			}
		}
		cls := classify(ro.Probes)
		run.Distinct("image_classes_seen", keyBase+" → "+cls)
		allowed := map[string]bool{"not-loaded": true}
		if sc.Refresh {
			allowed["complete-old"] = true
		}
		if sc.Accepted {
			allowed["complete-new"] = true
		}
		if !allowed[cls] {
			sym := cls
			if cls == "complete-new" {
				sym = "rejected-list-treated-as-loaded"
			}
			if cls == "complete-old" {
				sym = "old-list-without-ever-loading-it"
			}
			run.Violation(keyBase+"."+sym+".after-"+pointClass, fmt.Sprintf("%s: after restart the location answers as '%s' %v", desc, cls, ro.Probes), rp)
			return
		}
		if died {
			run.NonTrivial(desc)
			run.Distinct("crash_points_reached", keyBase+" @ "+pointClass)
		}
	}
	newCase := func() string {
		d := filepath.Join(l.scratch, fmt.Sprintf("s%d-c%d", si, l.n.Add(1)))
		copyDir(base, d)
		return d
	}
	if sc.Refresh {
		l.org.Set(path, origin.Good(newDoc))
	} else {
		l.org.Set(path, origin.Good(newDoc)) // first-load scenario loads "new" onto an empty work_dir
	}
	serve := func() { l.org.Set(path, origin.Good(newDoc)) }
	// (a) every hook hit
	var hookNames []string
	for k := int64(1); k < 400; k++ {
		cdir := newCase()
		serve()
		exit, sig := l.runChild("child-crash", childCfg{Dir: cdir, URL: url, Refresh: sc.Refresh, KillAtHit: k, WDForm: sc.WD, SigMode: sc.SigMode}, 180*time.Second)
		hb, _ := os.ReadFile(filepath.Join(cdir, "hits.log"))
		lines := strings.Split(strings.TrimSpace(string(hb)), "\n")
		last := ""
		if len(lines) > 0 {
			f := strings.Fields(lines[len(lines)-1])
			if len(f) == 2 {
				last = f[1]
			}
		}
		if _, err := os.Stat(filepath.Join(cdir, "completed")); err == nil && !sig {
			// the run completed without reaching k: enumeration finished; still check the clean image once
			evaluate("none(completed)", cdir, false)
			_ = os.RemoveAll(cdir)
			break
		}
		if !sig {
			run.Inconclusive(fmt.Sprintf("%s: crash child exited %d without being killed at hit %d", sc, exit, k))
			_ = os.RemoveAll(cdir)
			break
		}
		hookNames = append(hookNames, last)
		evaluate(fmt.Sprintf("hook:%s#%d", last, k), cdir, true)
		_ = os.RemoveAll(cdir)
	}
	// (b) after the j-th staged write
	js := []int64{1, 2, totalInserts / 2, totalInserts - 1, totalInserts}
	for _, j := range js {
		cdir := newCase()
		serve()
		_, sig := l.runChild("child-crash", childCfg{Dir: cdir, URL: url, Refresh: sc.Refresh, KillAtIns: j, WDForm: sc.WD, SigMode: sc.SigMode}, 180*time.Second)
		evaluate(fmt.Sprintf("staged-write#%d-of-%d", j, totalInserts), cdir, sig)
		_ = os.RemoveAll(cdir)
	}
	// (c) thorough: kills from outside at seeded instants
	if run.Thorough() && sc.N >= 10000 {
		for i := 0; i < 50; i++ {
			cdir := newCase()
			serve()
			cb, _ := json.Marshal(childCfg{Dir: cdir, URL: url, Refresh: sc.Refresh, WDForm: sc.WD, SigMode: sc.SigMode})
			cp := filepath.Join(cdir, "child-crash.cfg.json")
			_ = os.WriteFile(cp, cb, 0644)
			cmd := exec.Command(l.bin, "child-crash", cp)
			_ = cmd.Start()
			time.Sleep(time.Duration(20+rng.Intn(1500)) * time.Millisecond)
			_ = cmd.Process.Kill()
			_ = cmd.Wait()
			_, completed := os.Stat(filepath.Join(cdir, "completed"))
			evaluate(fmt.Sprintf("external-kill#%d", i), cdir, completed != nil)
			_ = os.RemoveAll(cdir)
		}
	}
	// (d) while the body of the download is arriving: the origin sends the first half, then the child is killed
	for i := 0; i < 2; i++ {
		cdir := newCase()
		cb, _ := json.Marshal(childCfg{Dir: cdir, URL: url, Refresh: sc.Refresh, WDForm: sc.WD, SigMode: sc.SigMode})
		cp := filepath.Join(cdir, "child-crash.cfg.json")
		_ = os.WriteFile(cp, cb, 0644)
		cmd := exec.Command(l.bin, "child-crash", cp)
		var killed atomic.Bool
		hold := time.Duration(20+30*i) * time.Millisecond
		l.org.Set(path, origin.PartialThen(newDoc, func() {
			time.Sleep(hold) // let the client write what it has received
			killed.Store(true)
			_ = cmd.Process.Kill()
		}, 2*time.Second))
		if sc.Refresh {
			// the child first re-opens the persisted list (no download), then refreshes
		}
		_ = cmd.Start()
		done := make(chan struct{})
		go func() { _ = cmd.Wait(); close(done) }()
		select {
		case <-done:
		case <-time.After(120 * time.Second):
			_ = cmd.Process.Kill()
			<-done
		}
		_, completed := os.Stat(filepath.Join(cdir, "completed"))
		evaluate(fmt.Sprintf("mid-download#%d", i), cdir, killed.Load() && completed != nil)
		_ = os.RemoveAll(cdir)
	}
	serve()
	// leftovers, whatever they are called
	if reference != nil {
		if sc.Refresh {
			ents, _ := os.ReadDir(wdOf(base, sc.WD))
			for _, e := range ents {
				reference[e.Name()] = true
			}
		}
		for point, names := range listings {
			for _, n := range names {
				if !reference[n] {
					keyBase := fmt.Sprintf("%s.%s", map[bool]string{true: "refresh", false: "first-load"}[sc.Refresh], map[bool]string{true: "accepted", false: "rejected"}[sc.Accepted])
					pointClass := regexp.MustCompile(`#\d+`).ReplaceAllString(point, "")
					run.Violation(keyBase+".leftover-in-work_dir.after-"+pointClass, fmt.Sprintf("%s crash-point=%s: %q is in work_dir after the restart, a run without crash leaves only %v", sc, point, n, keys(reference)), &report.Replay{Case: map[string]any{"scenario": sc.String(), "crash_point": point, "listing": names}})
					break
				}
			}
		}
	}
	run.Sample(map[string]any{"scenario": sc.String(), "hook_hits_enumerated": len(hookNames), "hook_sequence": strings.Join(hookNames, " "), "staged_write_points": js})
	_ = os.RemoveAll(base)
}
