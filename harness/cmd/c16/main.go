// c16: one signature policy on every intake path (exhaustive matrix, stepped histories at L2,
// observed through strict probes and listed-serial probes).
package main

import (
	"crypto"
	"crypto/x509"
	"fmt"
	"math/big"
	"math/rand"
	"os"
	"path/filepath"
	"strings"

	"verif/harness/lab/crlgen"
	"verif/harness/lab/gen"
	"verif/harness/lab/l2"
	"verif/harness/lab/origin"
	"verif/harness/lab/pki"
	"verif/harness/lab/report"
	"verif/harness/lab/sut"
	"verif/harness/lab/world"
)

var sigModes = []string{"", "verify", "verify_log", "none"}

// "content-replaced": another tbsCertList under the signatureValue (and algorithm) of the last genuine
// CRL of the issuer, bit for bit
var kinds = []string{"resolvable", "signer-unknown", "signature-wrong", "content-replaced"}
var intakes = []string{"provision-crl_urls", "provision-crl_files", "first-cdp-active", "first-cdp-background", "cdp-retry-active", "cdp-retry-background", "periodic-refresh", "refresh-after-restart", "restart-alone"}
var backends = []string{"memory", "disk"}

func modeName(m string) string {
	if m == "" {
		return "unset"
	}
	return m
}

// acceptable is the reference policy.
func acceptable(mode, kind string) bool {
	if mode == "" || mode == "verify" {
		return kind == "resolvable"
	}
	return true // verify_log, none: every parseable CRL
}

type cellEnv struct {
	w       *world.World
	sibling *pki.CA
	rng     *rand.Rand
	scratch string
	n       int
	lastSig []byte // signatureValue of the most recent genuine CRL built
}

// build makes version v (0 or 1) of a CRL of the given kind; returns DER and the listed serials.
func (e *cellEnv) build(kind string, base []crlgen.Entry, extra *big.Int) []byte {
	entries := append([]crlgen.Entry(nil), base...)
	if extra != nil {
		entries = append(entries, crlgen.Entry{Serial: extra, Date: gen.BaseTime})
	}
	signer := e.w.Int
	s := gen.SpecFor(e.w.Int, entries)
	switch kind {
	case "signer-unknown":
		signer = e.sibling
		s.Exts = [][]byte{crlgen.AKIKeyID(e.sibling.Cert.SubjectKeyId), crlgen.CRLNumberExt(big.NewInt(2))}
	}
	b := s.Build(signer.Key)
	doc := b.DER
	if kind == "resolvable" {
		e.lastSig = b.Sig
	}
	if kind == "content-replaced" {
		sig := e.lastSig
		if sig == nil {
			sig = gen.SpecFor(e.w.Int, base).Build(signer.Key).Sig
		}
		s2 := gen.SpecFor(e.w.Int, append(append([]crlgen.Entry(nil), entries...), crlgen.Entry{Serial: gen.SerialOfWidth(e.rng, 11, false), Date: gen.BaseTime}))
		tbs2, _ := s2.TBS()
		doc = crlgen.Assemble(tbs2, s2.Alg.AlgID(), sig)
	}
	if kind == "signature-wrong" {
		doc = append([]byte(nil), doc...)
		doc[len(doc)-1] ^= 0x01
	}
	return doc
}

func main() {
	run := report.New("C16", "exploration")
	run.Rule("cells = signature mode{unset,verify,verify_log,none} x CRL{signer resolvable, signer unknown, signature wrong, content replaced under the signature of the genuine CRL in force} x intake{configured crl_urls at provision, configured crl_files at provision, first CDP fetch active, first CDP fetch background, CDP fetch retried after a failed first download (active / background), periodic refresh of an accepted CRL, refresh after restart, restart alone} x backend (288 cells, all run); plus restarts under a stricter mode and with the trusted signer removed; each cell is a stepped history observed through strict probes / listed-serial probes / the Provision error; oracle: unset == verify; verify => in force iff resolvable and valid, on every path and after restart; verify_log/none => every parseable CRL in force, Provision succeeds, refresh brings new entries into force; non-trivial = cell whose decisive probe was reached; distinct = cell")
	run.Assume("'signer unknown' = CRL under the issuer's name whose AKI names and whose signature is made by a sibling key that is neither in the chain nor configured; 'signature wrong' = last signature bit flipped", "unavailable origin = HTTP 500")
	scratch, _ := report.Scratch("C16")
	sut.QuietStderr(filepath.Join(scratch, "stderr.log"))
	type cell struct{ Mode, Kind, Intake, Backend string }
	var cells []cell
	for _, m := range sigModes {
		for _, k := range kinds {
			for _, in := range intakes {
				for _, b := range backends {
					cells = append(cells, cell{m, k, in, b})
				}
			}
		}
	}
	si, sn, isShard := report.Shard()
	if !isShard {
		run.RunShards(12, scratch)
		run.Set("cells_in_matrix", len(cells))
		run.Exhaustive(run.Counter("cells_run") == int64(len(cells)))
		run.Finish(100)
		return
	}
	// rounds: the whole matrix once with an ECDSA issuing CA (counted for 'exhaustive'), once with an
	// RSA issuing CA; thorough repeats with further seeds
	rounds := []string{"ecdsa", "rsa"}
	if run.Thorough() {
		rounds = []string{"ecdsa", "rsa", "ecdsa#2", "rsa#2", "ecdsa#3", "ecdsa#4"}
	}
	for ri, round := range rounds {
		var w *world.World
		var sibKey crypto.Signer
		if strings.HasPrefix(round, "rsa") {
			w = world.NewWithKeys(fmt.Sprintf("C16-%d-%d", si, ri), nil, pki.RSAKey(0))
			sibKey = pki.RSAKey(1)
		} else {
			w = world.New(fmt.Sprintf("C16-%d-%d", si, ri))
		}
		w.CRL.Fragment.Store((si+ri)%2 == 1)
		e := &cellEnv{w: w, sibling: w.Root.Issue(pki.CertOpts{RawSubject: w.Int.Cert.RawSubject, IsCA: true, Key: sibKey}), rng: rand.New(rand.NewSource(run.Seed*131 + int64(si) + int64(ri)*7919)), scratch: scratch, n: ri * 100000}
		for ci, c := range cells {
			if ci%sn != si {
				continue
			}
			desc := fmt.Sprintf("mode=%s crl=%s intake=%s backend=%s keys=%s", modeName(c.Mode), c.Kind, c.Intake, c.Backend, round)
			keyBase := fmt.Sprintf("%s.%s.%s", c.Intake, modeName(c.Mode), c.Kind)
			run.Eval(1)
			if ri == 0 {
				run.Count("cells_run", 1)
			}
			ok := e.runCell(run, c.Mode, c.Kind, c.Intake, c.Backend, desc, keyBase)
			if ok {
				run.NonTrivial(desc)
			}
		}
		// extra cells: the policy also holds across a restart with a stricter mode. A configured CRL
		// that was accepted under verify_log / none although it cannot be verified must not be in
		// force after a restart under verify (provisioning re-applies the current policy)
		xn := 0
		for _, first := range []string{"verify_log", "none"} {
			for _, kind := range []string{"signer-unknown", "signature-wrong"} {
				for _, backend := range backends {
					for _, src := range []string{"crl_urls", "crl_files"} {
						xn++
						if xn%sn != si {
							continue
						}
						run.Eval(1)
						desc := fmt.Sprintf("restart-under-verify first-mode=%s crl=%s source=%s backend=%s keys=%s", first, kind, src, backend, round)
						if e.restartStricter(run, first, kind, src, backend, desc) {
							run.NonTrivial(desc)
						}
					}
				}
			}
		}
		// and across a restart with the trusted signer removed from the configuration: under verify the
		// persisted CRL of a configured location has no entitled signer any more
		for _, backend := range backends {
			for _, src := range []string{"crl_urls", "crl_files"} {
				xn++
				if xn%sn != si {
					continue
				}
				run.Eval(1)
				desc := fmt.Sprintf("restart-without-trusted-signer mode=verify source=%s backend=%s keys=%s", src, backend, round)
				if e.restartWithoutSigner(run, src, backend, desc) {
					run.NonTrivial(desc)
				}
			}
		}
		w.Close()
	}
	run.FinishShard()
}

func (e *cellEnv) runCell(run *report.Run, mode, kind, intake, backend, desc, keyBase string) bool {
	e.n++
	w := e.w
	wd := filepath.Join(e.scratch, fmt.Sprintf("wd%d", e.n))
	_ = os.MkdirAll(wd, 0755)
	defer os.RemoveAll(wd)
	path := fmt.Sprintf("/s%d.crl", e.n)
	url := w.CRL.URL(path)
	base := gen.Entries(e.rng, gen.Opts{N: 5, SerialWidth: 8})
	l0 := base[2].Serial
	l1 := gen.SerialOfWidth(e.rng, 9, false)
	unl := gen.SerialOfWidth(e.rng, 10, false)
	acc := acceptable(mode, kind)
	viol := func(sym, what string) bool {
		run.Violation(keyBase+"."+sym, desc+": "+what, &report.Replay{Case: map[string]any{"cell": desc, "acceptable_by_policy": acc}})
		return false
	}
	leaf := func(s *big.Int, cdp bool) []*x509.Certificate {
		if cdp {
			return w.Leaf(s, []string{url}, nil)
		}
		return w.Leaf(s, nil, nil)
	}
	opts := l2.Opts{WorkDir: wd, Storage: backend, SigMode: mode, Fetch: "actively", Strict: true}

	switch intake {
	case "provision-crl_urls", "provision-crl_files":
		v0, v1 := e.build(kind, base, nil), e.build(kind, base, l1)
		file := filepath.Join(e.scratch, fmt.Sprintf("s%d.crlfile", e.n))
		defer os.Remove(file)
		if intake == "provision-crl_urls" {
			w.CRL.Set(path, origin.Good(v0))
			opts.CRLUrls = []string{url}
		} else {
			_ = os.WriteFile(file, v0, 0644)
			opts.CRLFiles = []string{file}
		}
		if kind != "signer-unknown" {
			opts.Trusted = []*x509.Certificate{w.Int.Cert}
		}
		chk, err := l2.Start(opts)
		if err != nil {
			if acc {
				return viol("provision-failed", "Provision failed although the configured CRL is acceptable under the mode: "+err.Error())
			}
			return true // not in force, fail closed
		}
		defer chk.Stop()
		rev, perr := chk.Ask(leaf(l0, false))
		if perr != nil {
			return viol("probe-error", "listed probe returned an error: "+perr.Error())
		}
		if acc && !rev {
			return viol("acceptable-not-in-force", "configured CRL is acceptable but its listed serial is not rejected after Provision")
		}
		if !acc && rev {
			return viol("unacceptable-in-force", "configured CRL must not be in force under this mode but its listed serial is rejected")
		}
		// refresh brings the new entry into force (iff acceptable)
		if intake == "provision-crl_urls" {
			w.CRL.Set(path, origin.Good(v1))
		} else {
			_ = os.WriteFile(file, v1, 0644)
		}
		chk.Refresh()
		rev1, _ := chk.Ask(leaf(l1, false))
		if acc && !rev1 {
			return viol("refresh-not-applied", "after a refresh the newly listed serial is not rejected")
		}
		if !acc && rev1 {
			return viol("unacceptable-refresh-in-force", "refresh of an unacceptable CRL brought its entry into force")
		}
		return true

	case "first-cdp-active", "first-cdp-background", "cdp-retry-active", "cdp-retry-background":
		if strings.HasSuffix(intake, "-background") {
			opts.Fetch = "background"
		}
		retry := strings.HasPrefix(intake, "cdp-retry")
		w.CRL.Set(path, origin.Good(e.build(kind, base, nil)))
		if retry {
			// the first attempt to load the location fails for an unrelated reason; the CRL is taken
			// in by a retry (update pass, or the next handshake in active mode)
			if e.n%2 == 0 {
				w.CRL.Set(path, origin.Garbage())
			} else {
				w.CRL.Set(path, origin.Status(500, []byte("<html>err</html>")))
			}
		}
		chk, err := l2.Start(opts)
		if err != nil {
			return viol("provision-failed", err.Error())
		}
		defer chk.Stop()
		_, _ = chk.Ask(leaf(unl, true)) // first contact (background: triggers the load and waits for it)
		if retry {
			w.CRL.Set(path, origin.Good(e.build(kind, base, nil)))
			chk.Refresh()
		}
		_, perr := chk.Ask(leaf(unl, true))
		inForce := perr == nil
		if !acc && !inForce {
			// a rejected first load is retried by later passes and handshakes: the policy holds there too
			for i := 0; i < 2; i++ {
				chk.Refresh()
				if _, perr2 := chk.Ask(leaf(unl, true)); perr2 == nil {
					return viol("unacceptable-in-force-after-retry", fmt.Sprintf("CDP CRL was rejected at first but came into force at retry %d", i+1))
				}
			}
		}
		if acc && !inForce {
			return viol("acceptable-not-in-force", "CDP CRL acceptable under the mode but the strict probe is denied: "+perr.Error())
		}
		if !acc && inForce {
			return viol("unacceptable-in-force", "CDP CRL must not come into force under this mode but the strict probe is accepted")
		}
		if acc {
			rev, _ := chk.Ask(leaf(l0, true))
			if !rev {
				return viol("in-force-but-listed-accepted", "CRL in force but its listed serial is accepted")
			}
			// a CRL taken in on this path keeps being refreshed
			w.CRL.Set(path, origin.Good(e.build(kind, base, l1)))
			chk.Refresh()
			rev1, perr := chk.Ask(leaf(l1, true))
			if perr != nil {
				return viol("previous-lost", "after the refresh the CDP CRL is not in force any more: "+perr.Error())
			}
			if !rev1 {
				return viol("refresh-not-applied", "a CRL first fetched from the CDP is not refreshed: the newly listed serial is accepted after a refresh pass")
			}
		}
		return true

	case "periodic-refresh", "refresh-after-restart":
		w.CRL.Set(path, origin.Good(e.build("resolvable", base, nil)))
		chk, err := l2.Start(opts)
		if err != nil {
			return viol("provision-failed", err.Error())
		}
		defer chk.Stop()
		if _, perr := chk.Ask(leaf(unl, true)); perr != nil {
			return viol("setup.accepted-crl-not-in-force", "a resolvable, valid CRL did not come into force: "+perr.Error())
		}
		if intake == "refresh-after-restart" {
			if err := chk.Restart(); err != nil {
				return viol("restart-failed", err.Error())
			}
			if backend == "disk" {
				// origin down for the handshake that re-opens the persisted store
				w.CRL.Set(path, origin.Status(500, []byte("down")))
				if _, perr := chk.Ask(leaf(unl, true)); perr != nil {
					return viol("restart.accepted-crl-lost", "the accepted CRL is not in force after restart on disk: "+perr.Error())
				}
			}
		}
		w.CRL.Set(path, origin.Good(e.build(kind, base, l1)))
		if intake == "refresh-after-restart" && backend == "memory" {
			// nothing is known after a restart of the memory backend: the next handshake is a first load
			_, perr := chk.Ask(leaf(unl, true))
			inForce := perr == nil
			if acc != inForce {
				return viol(map[bool]string{true: "acceptable-not-in-force", false: "unacceptable-in-force"}[acc], fmt.Sprintf("after restart (memory) first load in force=%v", inForce))
			}
			return true
		}
		chk.Refresh()
		rev1, perr := chk.Ask(leaf(l1, true))
		if perr != nil {
			return viol("previous-lost", "after the refresh the CDP CRL is not in force any more: "+perr.Error())
		}
		if acc && !rev1 {
			return viol("refresh-not-applied", "refresh with a CRL acceptable under the mode did not bring the new entry into force")
		}
		if !acc && rev1 {
			return viol("unacceptable-refresh-in-force", "refresh with an unacceptable CRL brought its new entry into force")
		}
		rev0, _ := chk.Ask(leaf(l0, true))
		if !rev0 {
			return viol("previous-entry-lost", "an entry present in both versions is not rejected after the refresh")
		}
		if !acc {
			// the same unacceptable CRL is offered at every following refresh as well
			for i := 2; i <= 3; i++ {
				chk.Refresh()
				if revN, _ := chk.Ask(leaf(l1, true)); revN {
					return viol("unacceptable-refresh-in-force-at-repeated-refresh", fmt.Sprintf("the unacceptable CRL was refused at the first refresh but is in force after refresh %d", i))
				}
			}
			if rev0, perr := chk.Ask(leaf(l0, true)); !rev0 || perr != nil {
				return viol("previous-lost-at-repeated-refresh", fmt.Sprintf("after repeated refused refreshes the previous CRL is not in force any more (err=%v)", perr))
			}
		}
		return true

	case "restart-alone":
		w.CRL.Set(path, origin.Good(e.build(kind, base, nil)))
		chk, err := l2.Start(opts)
		if err != nil {
			return viol("provision-failed", err.Error())
		}
		defer chk.Stop()
		_, perr := chk.Ask(leaf(unl, true))
		before := perr == nil
		if before != acc {
			return viol(map[bool]string{true: "acceptable-not-in-force", false: "unacceptable-in-force"}[acc], fmt.Sprintf("before restart in force=%v", before))
		}
		w.CRL.Set(path, origin.Status(500, []byte("down")))
		if err := chk.Restart(); err != nil {
			return viol("restart-failed", err.Error())
		}
		_, perr = chk.Ask(leaf(unl, true))
		after := perr == nil
		want := acc && backend == "disk"
		if after && !want {
			if !acc {
				return viol("rejected-crl-in-force-after-restart", "a CRL rejected before the restart is in force after it (origin down)")
			}
			return viol("in-force-after-restart-without-storage", "memory backend answers in force after restart with the origin down")
		}
		if !after && want {
			return viol("accepted-crl-lost-by-restart", "accepted CRL on disk is not in force after restart")
		}
		if after {
			rev, _ := chk.Ask(leaf(l0, true))
			if !rev {
				return viol("in-force-after-restart-but-listed-accepted", "after restart the CRL is in force but its listed serial is accepted")
			}
		}
		return true
	}
	return false
}

func (e *cellEnv) restartWithoutSigner(run *report.Run, src, backend, desc string) bool {
	e.n++
	w := e.w
	wd := filepath.Join(e.scratch, fmt.Sprintf("wdy%d", e.n))
	_ = os.MkdirAll(wd, 0755)
	defer os.RemoveAll(wd)
	path := fmt.Sprintf("/y%d.crl", e.n)
	base := gen.Entries(e.rng, gen.Opts{N: 5, SerialWidth: 8})
	doc := e.build("resolvable", base, nil)
	opts := l2.Opts{WorkDir: wd, Storage: backend, SigMode: "verify", Fetch: "actively", Trusted: []*x509.Certificate{w.Int.Cert}}
	file := filepath.Join(e.scratch, fmt.Sprintf("y%d.crlfile", e.n))
	defer os.Remove(file)
	if src == "crl_urls" {
		w.CRL.Set(path, origin.Good(doc))
		opts.CRLUrls = []string{w.CRL.URL(path)}
	} else {
		_ = os.WriteFile(file, doc, 0644)
		opts.CRLFiles = []string{file}
	}
	key := "restart-without-trusted-signer.verify"
	chk, err := l2.Start(opts)
	if err != nil {
		run.Violation(key+".first-run-provision-failed", desc+": "+err.Error(), nil)
		return false
	}
	// probe without the CA in the presented chain list (the client certificate alone)
	probe := w.Leaf(base[1].Serial, nil, nil)[:1]
	if rev, _ := chk.Ask(probe); !rev {
		chk.Stop()
		run.Violation(key+".first-run-not-in-force", desc+": the CRL of the trusted signer is not in force", nil)
		return false
	}
	chk.Stop()
	opts.Trusted = nil
	chk2, err := l2.Start(opts)
	if err != nil {
		return true // refused at provisioning: not in force
	}
	defer chk2.Stop()
	if rev, _ := chk2.Ask(probe); rev {
		run.Violation(key+".in-force-after-restart."+backend, desc+": no signer is configured any more, yet the persisted CRL is in force after the restart", nil)
		return false
	}
	return true
}

func (e *cellEnv) restartStricter(run *report.Run, first, kind, src, backend, desc string) bool {
	e.n++
	w := e.w
	wd := filepath.Join(e.scratch, fmt.Sprintf("wdx%d", e.n))
	_ = os.MkdirAll(wd, 0755)
	defer os.RemoveAll(wd)
	path := fmt.Sprintf("/x%d.crl", e.n)
	base := gen.Entries(e.rng, gen.Opts{N: 5, SerialWidth: 8})
	doc := e.build(kind, base, nil)
	opts := l2.Opts{WorkDir: wd, Storage: backend, SigMode: first, Fetch: "actively"}
	file := filepath.Join(e.scratch, fmt.Sprintf("x%d.crlfile", e.n))
	defer os.Remove(file)
	if src == "crl_urls" {
		w.CRL.Set(path, origin.Good(doc))
		opts.CRLUrls = []string{w.CRL.URL(path)}
	} else {
		_ = os.WriteFile(file, doc, 0644)
		opts.CRLFiles = []string{file}
	}
	if kind != "signer-unknown" {
		opts.Trusted = []*x509.Certificate{w.Int.Cert}
	}
	key := fmt.Sprintf("restart-under-verify.%s.%s", first, kind)
	chk, err := l2.Start(opts)
	if err != nil {
		run.Violation(key+".first-run-provision-failed", desc+": "+err.Error(), nil)
		return false
	}
	probe := w.Leaf(base[1].Serial, nil, nil)
	if rev, _ := chk.Ask(probe); !rev {
		chk.Stop()
		run.Violation(key+".first-run-not-in-force", desc+": under "+first+" the parseable CRL is not in force", nil)
		return false
	}
	chk.Stop()
	opts.SigMode = "verify"
	chk2, err := l2.Start(opts)
	if err != nil {
		return true // refused at provisioning: not in force
	}
	defer chk2.Stop()
	if rev, _ := chk2.Ask(probe); rev {
		run.Violation(key+".in-force-under-verify-after-restart."+backend, desc+": a CRL that cannot be verified is in force after a restart under 'verify'", nil)
		return false
	}
	return true
}
