// c09: fail closed — a storage failure during lookup is never reported as 'not revoked'
// (fault enumeration against the real store while the checker holds it).
package main

import (
	"crypto"
	"crypto/sha256"
	"crypto/x509"
	"encoding/hex"
	"encoding/json"
	"fmt"
	"github.com/gr33nbl00d/caddy-revocation-validator/config"
	"golang.org/x/crypto/ocsp"
	"math/big"
	"math/rand"
	"os"
	"os/exec"
	"path/filepath"
	"runtime/debug"
	"sort"
	"strings"
	"sync"
	"sync/atomic"
	"time"

	"github.com/syndtr/goleveldb/leveldb"

	"github.com/gr33nbl00d/caddy-revocation-validator/core"
	"github.com/gr33nbl00d/caddy-revocation-validator/core/asn1parser"
	"github.com/gr33nbl00d/caddy-revocation-validator/core/hashing"
	"github.com/gr33nbl00d/caddy-revocation-validator/crl/crlstore"

	"verif/harness/lab/crlgen"
	"verif/harness/lab/der"
	"verif/harness/lab/gen"
	"verif/harness/lab/l2"
	"verif/harness/lab/origin"
	"verif/harness/lab/pki"
	"verif/harness/lab/report"
	"verif/harness/lab/sut"
	"verif/harness/lab/world"
)

// recFactory remembers the live stores the repository created (raw stores are returned).
type recFactory struct {
	real crlstore.Factory
	mu   sync.Mutex
	live []crlstore.CRLStore
}

func (f *recFactory) CreateStore(id string, temp bool) (crlstore.CRLStore, error) {
	s, err := f.real.CreateStore(id, temp)
	if err == nil && !temp {
		f.mu.Lock()
		f.live = append(f.live, s)
		f.mu.Unlock()
	}
	return s, err
}

type scn struct {
	run     *report.Run
	w       *world.World
	rng     *rand.Rand
	scratch string
	n       int
}

type loaded struct {
	chk     *l2.Checker
	fac     *recFactory
	wd      string
	url     string
	path    string
	listed  []*big.Int
	unl     *big.Int
	cdp     []string
	entries []crlgen.Entry
	others  []string
}

func (s *scn) load(backend string, n int, strict bool, configured bool) (*loaded, error) {
	s.n++
	l := &loaded{wd: filepath.Join(s.scratch, fmt.Sprintf("wd%d", s.n)), path: fmt.Sprintf("/f%d.crl", s.n)}
	_ = os.MkdirAll(l.wd, 0755)
	l.url = s.w.CRL.URL(l.path)
	l.entries = gen.Entries(s.rng, gen.Opts{N: n, SerialWidth: 9})
	for _, i := range []int{0, n / 2, n - 1} {
		l.listed = append(l.listed, l.entries[i].Serial)
	}
	l.unl = gen.SerialOfWidth(s.rng, 10, false)
	s.w.CRL.Set(l.path, origin.Good(gen.SpecFor(s.w.Int, l.entries).Build(s.w.Int.Key).DER))
	opts := l2.Opts{WorkDir: l.wd, Storage: backend, SigMode: "verify", Fetch: "actively", Strict: strict}
	if configured {
		opts.CRLUrls = []string{l.url}
		opts.Trusted = []*x509.Certificate{s.w.Int.Cert}
	} else {
		l.cdp = []string{l.url}
	}
	// the recording factory must be in place before the first store is created: provision without
	// configured CRLs is not possible here, so configured scenarios find their store via restart.
	chk, err := l2.Start(opts)
	if err != nil {
		return nil, err
	}
	l.chk = chk
	l.fac = &recFactory{real: chk.C.VerifRepository().Factory}
	chk.C.VerifRepository().Factory = l.fac
	if !configured {
		rev, err := chk.Ask(s.w.Leaf(l.listed[0], l.cdp, nil))
		if err != nil || !rev {
			chk.Stop()
			return nil, fmt.Errorf("setup: listed certificate not rejected after load (rev=%v err=%v)", rev, err)
		}
	}
	// the faulted CRL is one of several the repository knows (the lookup walks all of them in no
	// particular order): two more healthy CRLs from other distribution points
	for k := 0; k < 2; k++ {
		p := fmt.Sprintf("%s.other%d", l.path, k)
		s.w.CRL.Set(p, origin.Good(gen.SpecFor(s.w.Int, gen.Entries(s.rng, gen.Opts{N: 5, SerialWidth: 7})).Build(s.w.Int.Key).DER))
		_, _ = chk.Ask(s.w.Leaf(gen.SerialOfWidth(s.rng, 12, false), []string{s.w.CRL.URL(p)}, nil))
		l.others = append(l.others, p)
	}
	return l, nil
}

// targetDir is the LevelDB directory of the CRL under test (the first live store created).
func (l *loaded) targetDir() string {
	l.fac.mu.Lock()
	defer l.fac.mu.Unlock()
	for _, st := range l.fac.live {
		if ls, ok := st.(*crlstore.LevelDbStore); ok {
			return ls.LevelDBPath
		}
	}
	return l.wd
}

type answer struct {
	level   string
	revoked bool
	err     error
}

// askAll asks at the three L2 entry points.
func (s *scn) askAll(l *loaded, serial *big.Int) []answer {
	chain := s.w.Leaf(serial, l.cdp, nil)
	var out []answer
	repo := l.chk.C.VerifRepository()
	var locs *core.CRLLocations
	if len(l.cdp) > 0 {
		locs = &core.CRLLocations{CRLDistributionPoints: l.cdp}
	}
	// repeated: the repository visits its CRLs in map order, which differs from call to call
	// (only the repository-level call is repeated: the checker-level call re-attempts to open a
	// store that cannot be opened, which costs 5 s of retries each time)
	st, err := l.chk.C.IsRevoked(chain[0], [][]*x509.Certificate{chain})
	out = append(out, answer{"CRLRevocationChecker.IsRevoked", st != nil && st.Revoked, err})
	for rep := 0; rep < 6; rep++ {
		st, err := repo.IsRevoked(chain[0], locs)
		out = append(out, answer{"Repository.IsRevoked", st != nil && st.Revoked, err})
	}
	return out
}

func (s *scn) judge(fault, backend string, l *loaded, faultHitsRead bool, desc string) bool {
	ok := true
	anyErr := false
	for _, serial := range l.listed {
		for _, a := range s.askAll(l, serial) {
			s.run.Eval(1)
			if a.err != nil {
				anyErr = true
				continue
			}
			if !a.revoked {
				ok = false
				s.run.Violation(fmt.Sprintf("%s.%s.listed-answered-not-revoked", fault, backend), fmt.Sprintf("%s: %s answered (Revoked=false, err=nil) for a listed certificate under the fault", desc, a.level), &report.Replay{Case: desc})
			}
		}
	}
	for _, a := range s.askAll(l, l.unl) {
		s.run.Eval(1)
		if a.err != nil {
			anyErr = true
			continue
		}
		if a.revoked {
			ok = false
			s.run.Violation(fmt.Sprintf("%s.%s.unlisted-answered-revoked", fault, backend), desc+": unlisted certificate reported revoked under the fault", &report.Replay{Case: desc})
		} else if faultHitsRead {
			ok = false
			s.run.Violation(fmt.Sprintf("%s.%s.unlisted-answered-not-revoked-although-read-failed", fault, backend), fmt.Sprintf("%s: %s answered 'not revoked' for an unlisted certificate although the read provably failed", desc, a.level), &report.Replay{Case: desc})
		}
	}
	if ok && (anyErr || !faultHitsRead) {
		s.run.NonTrivial(desc)
		if anyErr {
			s.run.Count("cases_where_the_fault_surfaced_as_error", 1)
		} else {
			s.run.Count("cases_where_the_fault_missed_the_read", 1)
		}
	}
	return ok
}

func modeKey(m string) string {
	if m == "" {
		return "unset"
	}
	return m
}

func ldbFiles(dir string) []string {
	var out []string
	_ = filepath.Walk(dir, func(p string, info os.FileInfo, err error) error {
		if err == nil && !info.IsDir() && (strings.HasSuffix(p, ".ldb") || strings.Contains(filepath.Base(p), "MANIFEST")) {
			out = append(out, p)
		}
		return nil
	})
	sort.Strings(out)
	return out
}

// ---- F5 child: lookups on a prepared disk image while strace injects EIO into pread64

type f5Cfg struct {
	Dir    string
	URL    string
	Listed []string
	Unl    string
}

func childF5(cfgPath string) {
	var cfg f5Cfg
	b, _ := os.ReadFile(cfgPath)
	_ = json.Unmarshal(b, &cfg)
	sut.QuietStderr(filepath.Join(cfg.Dir, "f5.stderr.log"))
	out := map[string]string{}
	defer func() {
		if r := recover(); r != nil {
			out["panic"] = fmt.Sprint(r)
		}
		ob, _ := json.Marshal(out)
		_ = os.WriteFile(filepath.Join(cfg.Dir, "f5.json"), ob, 0644)
	}()
	rootDER, _ := os.ReadFile(filepath.Join(cfg.Dir, "root.der"))
	intDER, _ := os.ReadFile(filepath.Join(cfg.Dir, "int.der"))
	keyDER, _ := os.ReadFile(filepath.Join(cfg.Dir, "int.key"))
	root, _ := x509.ParseCertificate(rootDER)
	in, _ := x509.ParseCertificate(intDER)
	anyKey, _ := x509.ParsePKCS8PrivateKey(keyDER)
	ca := &pki.CA{Cert: in, Key: anyKey.(crypto.Signer)}
	chk, err := l2.Start(l2.Opts{WorkDir: filepath.Join(cfg.Dir, "wd"), Storage: "disk", SigMode: "verify", Fetch: "actively", Strict: true})
	if err != nil {
		out["provision_err"] = err.Error()
		return
	}
	ask := func(name, serial string) {
		sn, _ := new(big.Int).SetString(serial, 10)
		leaf := ca.Leaf(sn, []string{cfg.URL}, nil)
		st, err := chk.C.IsRevoked(leaf, [][]*x509.Certificate{{leaf, in, root}})
		switch {
		case err != nil:
			out[name] = "error"
		case st.Revoked:
			out[name] = "revoked"
		default:
			out[name] = "not-revoked"
		}
	}
	for i, l := range cfg.Listed {
		ask(fmt.Sprintf("listed%d", i), l)
	}
	ask("unlisted", cfg.Unl)
	chk.Stop()
}

func main() {
	if len(os.Args) >= 3 && os.Args[1] == "child-f5" {
		childF5(os.Args[2])
		return
	}
	run := report.New("C09", "fault_enumeration")
	run.Rule("faults applied to the real store while the checker holds it: F1 database handle closed under the repository; F2 byte flips / truncation of every table file and the MANIFEST at seeded offsets and single-bit flips inside the stored key of a listed record, then restart, every entry of the list probed; F3 a listed record's value overwritten (garbage / empty / truncated / one bit of its serialNumber flipped) through a second handle while the checker is down; F4 Cleanup overlapping in-flight lookups (both backends); F5 EIO injected by strace into every pread64 from the N-th on in a child doing lookups on a prepared disk image; F8 at validator level (modes unset / prefer_ocsp / prefer_crl / crl_only, OCSP healthy and answering good) the CRL repository closed: the handshake is denied; F7 the live database directory removed from work_dir followed by a refresh; F6 a swap that fails half way (target made non-renamable between 'old moved aside' and 'new moved in'), then lookups of a configured CRL; for listed and unlisted certificates at Repository.IsRevoked and CRLRevocationChecker.IsRevoked; oracle: under an active fault (Revoked=false, err=nil) for a listed certificate is a violation; for an unlisted one only when the fault provably hit the read; non-trivial = fault case in which the fault surfaced as an error or verifiably missed the read; distinct = fault case descriptor")
	run.Assume("strict CDP mode for on-disk corruption cases, so that a store that cannot even be opened is denied by the strict gate rather than silently unknown", "F5: strace injects EIO into pread64 (goleveldb table reads) of a child process from the N-th call on, N per thread")
	scratch, _ := report.Scratch("C09")
	sut.QuietStderr(filepath.Join(scratch, "stderr.log"))
	si, sn, isShard := report.Shard()
	type job struct {
		name string
		f    func(s *scn)
	}
	var jobs []job
	sizes := []int{50}
	if run.Thorough() {
		sizes = append(sizes, 50000)
	} else {
		sizes = append(sizes, 5000)
	}
	for _, n := range sizes {
		n := n
		// F1
		jobs = append(jobs, job{fmt.Sprintf("F1 n=%d", n), func(s *scn) {
			l, err := s.load("disk", n, false, false)
			if err != nil {
				s.run.Inconclusive("F1 setup: " + err.Error())
				return
			}
			defer l.chk.Stop()
			l.fac.mu.Lock()
			stores := append([]crlstore.CRLStore(nil), l.fac.live...)
			l.fac.mu.Unlock()
			closed := 0
			for _, st := range stores[:min(1, len(stores))] { // the first live store is the one under test
				if ls, ok := st.(*crlstore.LevelDbStore); ok && ls.Db != nil {
					_ = ls.Db.Close()
					closed++
				}
			}
			if closed == 0 {
				s.run.Inconclusive("F1: no live LevelDB store found")
				return
			}
			s.judge("F1-db-closed", "disk", l, true, fmt.Sprintf("F1 database closed under the repository, n=%d", n))
		}})
		// F3
		// "serial-bit-flipped": the record still decodes, but one bit of its serialNumber INTEGER changed
		for _, val := range []string{"garbage", "empty", "truncated", "serial-bit-flipped"} {
			val := val
			jobs = append(jobs, job{fmt.Sprintf("F3 %s n=%d", val, n), func(s *scn) {
				l, err := s.load("disk", n, true, false)
				if err != nil {
					s.run.Inconclusive("F3 setup: " + err.Error())
					return
				}
				l.chk.Stop()
				dirs := []string{l.targetDir()}
				patched := 0
				issuer, _ := asn1parser.ParseRDNSequence(s.w.Int.Cert.RawSubject)
				for _, d := range dirs {
					db, err := leveldb.OpenFile(d, nil)
					if err != nil {
						continue
					}
					for _, serial := range l.listed {
						key := hashing.Sum64(issuer.String() + "_" + serial.String())
						old, err := db.Get(key, nil)
						if err != nil {
							continue
						}
						var nv []byte
						switch val {
						case "garbage":
							nv = []byte{0xde, 0xad, 0xbe, 0xef, 0x30, 0x84, 0xff}
						case "empty":
							nv = []byte{}
						case "truncated":
							nv = old[:len(old)/2]
						case "serial-bit-flipped":
							nv = append([]byte(nil), old...)
							if tree, err := der.Parse(nv); err == nil && len(tree.Children) > 0 && tree.Children[0].Tag == 0x02 {
								c := tree.Children[0]
								nv[c.Off+c.HdrLen+c.Len-1] ^= 0x01
							} else {
								continue
							}
						}
						_ = db.Put(key, nv, nil)
						patched++
					}
					_ = db.Close()
				}
				if patched == 0 {
					s.run.Inconclusive("F3: listed records not found through the second handle")
					return
				}
				s.w.CRL.Set(l.path, origin.Status(500, []byte("down")))
				if err := l.chk.Restart(); err != nil {
					s.run.Inconclusive("F3 restart: " + err.Error())
					return
				}
				defer l.chk.Stop()
				// only the listed records were damaged: the unlisted read is healthy
				s.judge("F3-record-"+val, "disk", l, false, fmt.Sprintf("F3 listed record value %s, n=%d", val, n))
			}})
		}
	}
	// F2: corruption of table files at seeded offsets
	noff := 24
	if run.Thorough() {
		noff = 200
	}
	for k := 0; k < noff; k++ {
		k := k
		jobs = append(jobs, job{fmt.Sprintf("F2 #%d", k), func(s *scn) {
			n := 300
			l, err := s.load("disk", n, true, false)
			if err != nil {
				s.run.Inconclusive("F2 setup: " + err.Error())
				return
			}
			// close + reopen + close so that the data sits in table files
			_ = l.chk.Restart()
			_, _ = l.chk.Ask(s.w.Leaf(l.unl, l.cdp, nil))
			l.chk.Stop()
			files := ldbFiles(l.targetDir())
			if len(files) == 0 {
				s.run.Inconclusive("F2: no table files on disk")
				return
			}
			f := files[k%len(files)]
			b, _ := os.ReadFile(f)
			kind := []string{"flip", "flip-key", "flip", "truncate", "zero-run", "flip-key"}[k%6]
			var desc string
			if kind == "flip-key" {
				// one bit inside the stored key of a listed record (found literally in a table file)
				issuer, _ := asn1parser.ParseRDNSequence(s.w.Int.Cert.RawSubject)
				target := l.listed[k%len(l.listed)]
				key := hashing.Sum64(issuer.String() + "_" + target.String())
				found := false
				for _, tf := range files {
					tb, _ := os.ReadFile(tf)
					if i := strings.Index(string(tb), string(key)); i >= 0 && strings.HasSuffix(tf, ".ldb") {
						f, b = tf, tb
						b[i+7] ^= 1
						desc = fmt.Sprintf("F2 bit flip inside the stored key of listed serial %s (offset %d of %s)", target, i+7, filepath.Base(tf))
						found = true
						break
					}
				}
				if !found {
					s.run.Count("F2_key_not_found_literally", 1)
					kind = "flip"
				} else {
					s.run.Count("F2_key_flips", 1)
				}
			}
			switch kind {
			case "flip":
				off := s.rng.Intn(len(b))
				b[off] ^= byte(1 << uint(s.rng.Intn(8)))
				desc = fmt.Sprintf("F2 bit flip at offset %d of %s (%d bytes)", off, filepath.Base(f), len(b))
			case "truncate":
				cut := s.rng.Intn(len(b))
				b = b[:cut]
				desc = fmt.Sprintf("F2 %s truncated to %d bytes", filepath.Base(f), cut)
			case "zero-run":
				off := s.rng.Intn(len(b))
				for i := off; i < off+64 && i < len(b); i++ {
					b[i] = 0
				}
				desc = fmt.Sprintf("F2 64 zero bytes at offset %d of %s", off, filepath.Base(f))
			}
			_ = os.WriteFile(f, b, 0644)
			s.w.CRL.Set(l.path, origin.Status(500, []byte("down")))
			nl, err := l2.Start(l.chk.Opts)
			if err != nil {
				s.run.NonTrivial(desc + " (provision refused the damaged store)")
				return
			}
			l.chk = nl
			defer l.chk.Stop()
			if s.judge("F2-table-corruption."+kind, "disk", l, false, desc) {
				// every entry of the list, once, at repository level (a damaged block may hold any of them)
				repo := l.chk.C.VerifRepository()
				locs := &core.CRLLocations{CRLDistributionPoints: l.cdp}
				for _, e := range l.entries {
					c := s.w.Leaf(e.Serial, l.cdp, nil)
					st, err := repo.IsRevoked(c[0], locs)
					s.run.Eval(1)
					if err == nil && (st == nil || !st.Revoked) {
						s.run.Violation("F2-table-corruption."+kind+".disk.listed-answered-not-revoked", fmt.Sprintf("%s: Repository.IsRevoked answered (Revoked=false, err=nil) for listed serial %s", desc, e.Serial), &report.Replay{Case: desc})
						break
					}
				}
			}
		}})
	}
	// F5: read errors injected by strace into every pread64 from the N-th on
	norace := os.Getenv("VERIF_ENGINE_BIN_NORACE")
	if _, err := exec.LookPath("strace"); err == nil && norace != "" {
		for _, when := range []int{3, 4, 6, 9, 14, 20} {
			when := when
			jobs = append(jobs, job{fmt.Sprintf("F5 when=%d", when), func(s *scn) {
				l, err := s.load("disk", 400, true, false)
				if err != nil {
					s.run.Inconclusive("F5 setup: " + err.Error())
					return
				}
				_ = l.chk.Restart()
				_, _ = l.chk.Ask(s.w.Leaf(l.unl, l.cdp, nil))
				l.chk.Stop()
				dir := filepath.Dir(l.wd)
				cdir := filepath.Join(dir, fmt.Sprintf("f5-%d", s.n))
				_ = os.MkdirAll(cdir, 0755)
				_ = os.Rename(l.wd, filepath.Join(cdir, "wd"))
				_ = os.WriteFile(filepath.Join(cdir, "root.der"), s.w.Root.Cert.Raw, 0644)
				_ = os.WriteFile(filepath.Join(cdir, "int.der"), s.w.Int.Cert.Raw, 0644)
				kb, _ := x509.MarshalPKCS8PrivateKey(s.w.Int.Key)
				_ = os.WriteFile(filepath.Join(cdir, "int.key"), kb, 0600)
				cfg := f5Cfg{Dir: cdir, URL: l.url, Unl: l.unl.String()}
				for _, x := range l.listed {
					cfg.Listed = append(cfg.Listed, x.String())
				}
				cb, _ := json.Marshal(cfg)
				cp := filepath.Join(cdir, "cfg.json")
				_ = os.WriteFile(cp, cb, 0644)
				s.w.CRL.Set(l.path, origin.Status(500, []byte("down")))
				cmd := exec.Command("strace", "-f", "-o", filepath.Join(cdir, "strace.txt"), "-e", "trace=pread64", "-e", fmt.Sprintf("inject=pread64:error=EIO:when=%d+", when), norace, "child-f5", cp)
				cmd.Stdout, cmd.Stderr = nil, nil
				_ = cmd.Run()
				ob, err := os.ReadFile(filepath.Join(cdir, "f5.json"))
				desc := fmt.Sprintf("F5 EIO injected into every pread64 from the %d-th on (per thread), 400 entries on disk", when)
				if err != nil {
					s.run.Inconclusive(desc + ": child produced no result")
					return
				}
				var res map[string]string
				_ = json.Unmarshal(ob, &res)
				st, _ := os.ReadFile(filepath.Join(cdir, "strace.txt"))
				injected := strings.Count(string(st), "(INJECTED)")
				s.run.Count("F5_injected_read_errors", int64(injected))
				s.run.Eval(len(res))
				if res["panic"] != "" {
					s.run.Violation("F5-eio.disk.panic", desc+": "+res["panic"], &report.Replay{Case: res})
					return
				}
				bad := false
				for k, v := range res {
					if strings.HasPrefix(k, "listed") && v == "not-revoked" {
						bad = true
						s.run.Violation("F5-eio.disk.listed-answered-not-revoked", fmt.Sprintf("%s: %s answered not revoked; all answers %v; %d reads failed", desc, k, res, injected), &report.Replay{Case: res})
					}
				}
				if !bad && injected > 0 {
					s.run.NonTrivial(desc)
				}
			}})
		}
	}
	// F4: Cleanup overlapping in-flight lookups
	for _, backend := range []string{"memory", "disk"} {
		for rep := 0; rep < 3; rep++ {
			backend := backend
			jobs = append(jobs, job{"F4 " + backend, func(s *scn) {
				l, err := s.load(backend, 200, false, false)
				if err != nil {
					s.run.Inconclusive("F4 setup: " + err.Error())
					return
				}
				chain := s.w.Leaf(l.listed[1], l.cdp, nil)
				var cleanupReturned atomic.Bool
				var wg sync.WaitGroup
				var failOpen, inflightDuring, total atomic.Int64
				var stop atomic.Bool
				for g := 0; g < 8; g++ {
					wg.Add(1)
					go func() {
						defer wg.Done()
						for !stop.Load() {
							started := !cleanupReturned.Load()
							st, err := l.chk.C.IsRevoked(chain[0], [][]*x509.Certificate{chain})
							if !started {
								return // calls made strictly after Cleanup returned are out of scope
							}
							total.Add(1)
							if cleanupReturned.Load() {
								inflightDuring.Add(1)
							}
							if err == nil && (st == nil || !st.Revoked) {
								failOpen.Add(1)
							}
						}
					}()
				}
				time.Sleep(20 * time.Millisecond)
				l.chk.Stop()
				cleanupReturned.Store(true)
				time.Sleep(5 * time.Millisecond)
				stop.Store(true)
				wg.Wait()
				s.run.Eval(int(total.Load()))
				s.run.Count("F4_lookups_started_before_cleanup_returned", total.Load())
				s.run.Count("F4_lookups_in_flight_when_cleanup_returned", inflightDuring.Load())
				desc := fmt.Sprintf("F4 Cleanup overlapping 8 lookup goroutines, backend=%s", backend)
				if failOpen.Load() > 0 {
					s.run.Violation("F4-cleanup-overlap."+backend+".listed-answered-not-revoked", fmt.Sprintf("%s: %d of %d lookups that started before Cleanup returned answered (Revoked=false, err=nil) for a listed certificate", desc, failOpen.Load(), total.Load()), &report.Replay{Case: desc})
					return
				}
				s.run.NonTrivial(fmt.Sprintf("%s #%d", desc, s.n))
			}})
		}
	}
	// F6: swap fails half way (configured CRL, so nothing re-adds the entry)
	jobs = append(jobs, job{"F6", func(s *scn) {
		l, err := s.load("disk", 60, false, true)
		if err != nil {
			s.run.Inconclusive("F6 setup: " + err.Error())
			return
		}
		defer l.chk.Stop()
		// the hook fires between 'old moved aside' and 'new moved in': occupy the target path
		var once sync.Once
		l2.SetExtraHook(func(name string) {
			if name == "leveldb.update.old_moved_aside" {
				once.Do(func() {
					// store identifier of a URL location = hex SHA-256 of the normalised URL
					sum := sha256.Sum256([]byte(l.url))
					id := hex.EncodeToString(sum[:])
					p := filepath.Join(l.wd, id)
					_ = os.MkdirAll(filepath.Join(p, "occupied"), 0755)
					_ = os.WriteFile(filepath.Join(p, "occupied", "x"), []byte("x"), 0644)
				})
			}
		})
		defer l2.SetExtraHook(nil)
		l.chk.Refresh() // fails after ~5 s of rename retries
		s.run.Count("F6_swap_hook_hits", l2.HookCount("leveldb.update.old_moved_aside"))
		s.judge("F6-failed-swap", "disk", l, false, "F6 swap failed between 'old moved aside' and 'new moved in' (target occupied), configured CRL")
	}})

	// F7: the directory of the live database vanishes from work_dir while the checker runs (a cleaning
	// job, an operator); the next refresh cannot move it aside and the swap fails
	for _, configured := range []bool{true, false} {
		configured := configured
		jobs = append(jobs, job{fmt.Sprintf("F7 configured=%v", configured), func(s *scn) {
			l, err := s.load("disk", 60, !configured, configured)
			if err != nil {
				s.run.Inconclusive("F7 setup: " + err.Error())
				return
			}
			defer l.chk.Stop()
			if err := os.RemoveAll(l.targetDir()); err != nil {
				s.run.Inconclusive("F7: " + err.Error())
				return
			}
			l.chk.Refresh() // fails after ~5 s of rename retries
			s.judge("F7-store-directory-vanished-then-refresh", "disk", l, false, fmt.Sprintf("F7 the live database directory was removed from work_dir, then a refresh ran (configured=%v)", configured))
		}})
	}

	// F8 (whole validator): the CRL store fails at lookup time while OCSP is healthy and says 'good'.
	// Every mode that enables CRL checking has to deny (the status according to the CRL is unknown).
	for _, mode := range []string{"", "prefer_ocsp", "prefer_crl", "crl_only"} {
		for _, backend := range []string{"disk", "memory"} {
			mode, backend := mode, backend
			jobs = append(jobs, job{fmt.Sprintf("F8 mode=%q %s", mode, backend), func(s *scn) {
				s.n++
				wd := filepath.Join(s.scratch, fmt.Sprintf("wdv%d", s.n))
				_ = os.MkdirAll(wd, 0755)
				defer os.RemoveAll(wd)
				path := fmt.Sprintf("/v%d.crl", s.n)
				es := gen.Entries(s.rng, gen.Opts{N: 20, SerialWidth: 9})
				s.w.CRL.Set(path, origin.Good(gen.SpecFor(s.w.Int, es).Build(s.w.Int.Key).DER))
				s.w.OCSP.Set("/f8-good", world.Responder(s.w.Int, nil, nil, func(*big.Int) world.OCSPStatus { return world.OCSPStatus{Status: ocsp.Good} }))
				intPEM := pki.WritePEM(filepath.Join(s.scratch, fmt.Sprintf("int-v%d.pem", s.n)), s.w.Int.Cert)
				cfg := sut.CRLCfg(wd, backend, "verify", "fetch_actively", false, "")
				cfg.CRLUrls = []string{s.w.CRL.URL(path)}
				cfg.TrustedSignatureCertsFiles = []string{intPEM}
				v, err := sut.Provision(sut.Config{Mode: mode, CRL: cfg, OCSP: &config.OCSPConfig{TrustedResponderCertsFiles: []string{intPEM}}})
				if err != nil {
					s.run.Inconclusive("F8 setup: " + err.Error())
					return
				}
				cleaned := false
				defer func() {
					// Cleanup runs once per module (as Caddy does it): after the fault only the OCSP side is left
					if !cleaned {
						_ = v.Cleanup()
					} else if _, oc := v.Val.VerifCheckers(); oc != nil {
						_ = oc.Cleanup()
					}
				}()
				desc := fmt.Sprintf("F8 validator mode=%q backend=%s: CRL repository closed under the validator, OCSP responder healthy and answering good", mode, backend)
				listed := s.w.Leaf(es[3].Serial, nil, []string{s.w.OCSP.URL("/f8-good")})
				unl := s.w.Leaf(gen.SerialOfWidth(s.rng, 10, false), nil, []string{s.w.OCSP.URL("/f8-good")})
				if v.Verify(listed) == nil || v.Verify(unl) != nil {
					s.run.Inconclusive("F8 setup: the healthy validator does not reject the listed / accept the unlisted certificate")
					return
				}
				crlChk, _ := v.Val.VerifCheckers()
				_ = crlChk.Cleanup() // closes the repository: every lookup reports an error from now on
				cleaned = true
				for name, ch := range map[string][]*x509.Certificate{"listed": listed, "unlisted": unl} {
					s.run.Eval(1)
					if v.Verify(ch) == nil {
						s.run.Violation("F8-validator.crl-store-failure-accepted."+modeKey(mode)+"."+name, desc+": the "+name+" certificate was accepted", &report.Replay{Case: desc})
						return
					}
				}
				s.run.NonTrivial(desc)
			}})
		}
	}

	if !isShard {
		run.RunShards(10, scratch)
		run.Set("fault_cases_planned", len(jobs))
		if run.Counter("F2_key_flips") < 1 {
			run.Inconclusive("F2: no stored key of a listed record was found literally in a table file")
		}
		run.Finish(10)
		return
	}
	w := world.New(fmt.Sprintf("C09-%d", si))
	defer w.Close()
	s := &scn{run: run, w: w, rng: rand.New(rand.NewSource(run.Seed*31 + int64(si))), scratch: scratch}
	for i, j := range jobs {
		if i%sn != si {
			continue
		}
		func() {
			defer func() {
				if r := recover(); r != nil {
					run.Violation("panic."+strings.Fields(j.name)[0], fmt.Sprintf("%s: lookup under the fault panicked: %v\n%s", j.name, r, debug.Stack()), &report.Replay{Case: j.name})
				}
			}()
			j.f(s)
		}()
		if i%9 == 0 {
			run.Sample(j.name)
		}
	}
	run.FinishShard()
}
