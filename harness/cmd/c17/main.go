// c17: streaming memory bound — memory used while reading a CRL does not grow with the number of
// entries (resource monitor in a child process: in-use heap attributed by allocation site).
package main

import (
	"bytes"
	"crypto"
	"crypto/x509"
	"encoding/json"
	"fmt"
	"math/big"
	"math/rand"
	"net"
	"net/http"
	"os"
	"os/exec"
	"path/filepath"
	"runtime"
	"sort"
	"strings"
	"sync/atomic"
	"time"

	"github.com/gr33nbl00d/caddy-revocation-validator/core"
	"github.com/gr33nbl00d/caddy-revocation-validator/crl/crlloader"
	"github.com/gr33nbl00d/caddy-revocation-validator/crl/crlreader"

	"verif/harness/lab/crlgen"
	"verif/harness/lab/gen"
	"verif/harness/lab/l2"
	"verif/harness/lab/pki"
	"verif/harness/lab/report"
	"verif/harness/lab/sut"
)

type childCfg struct {
	Rejected bool   // disk-path: the document is well-formed and correctly signed but must be rejected at its end
	Mode     string // reader | loader-url | loader-file | disk-path
	File     string
	Dir      string
	N        int
	PEM      bool
}

type childOut struct {
	Samples          int      `json:"samples"`
	SamplesInLoop    int      `json:"samples_in_loop"`
	MaxRepoInUse     int64    `json:"max_repo_inuse"`
	MaxLevelDBInUse  int64    `json:"max_leveldb_inuse"`
	MaxOtherInUse    int64    `json:"max_other_inuse"`
	TopRepoSites     []string `json:"top_repo_sites"`
	HeapAllocMedian2 uint64   `json:"heapalloc_median_second_half"`
	HeapAllocMax     uint64   `json:"heapalloc_max"`
	Entries          int64    `json:"entries"`
	Err              string   `json:"err"`
	WallMs           int64    `json:"wall_ms"`
	Lookups          string   `json:"lookups"`
	TotalAllocDelta  uint64   `json:"total_alloc_delta"`
	LargeObjects     []string `json:"large_objects"` // repository allocation sites whose average object exceeds 1 MiB
	BodyBytes        int64    `json:"body_bytes"`
}

type countProc struct{ n atomic.Int64 }

func (p *countProc) StartUpdateCrl(*crlreader.CRLMetaInfo) error                  { return nil }
func (p *countProc) InsertRevokedCertificate(*crlreader.CRLEntry) error           { p.n.Add(1); return nil }
func (p *countProc) UpdateExtendedMetaInfo(*crlreader.ExtendedCRLMetaInfo) error  { return nil }
func (p *countProc) UpdateSignatureCertificate(*core.CertificateChainEntry) error { return nil }

const repoMod = "github.com/gr33nbl00d/caddy-revocation-validator/"

func classify(stk []uintptr) (string, string) {
	frames := runtime.CallersFrames(stk)
	cls := "other"
	site := ""
	for {
		f, more := frames.Next()
		fn := f.Function
		if strings.Contains(fn, "goleveldb") || strings.Contains(fn, "golang/snappy") {
			return "leveldb", fn
		}
		if strings.HasPrefix(fn, repoMod) && !strings.Contains(fn, "/core/verifhook") {
			if cls != "repo" {
				cls = "repo"
				site = strings.TrimPrefix(fn, repoMod)
			}
		}
		if !more {
			break
		}
	}
	return cls, site
}

func childMain(cfgPath string) {
	var cfg childCfg
	b, _ := os.ReadFile(cfgPath)
	_ = json.Unmarshal(b, &cfg)
	sut.QuietStderr(filepath.Join(cfg.Dir, "stderr.log"))
	runtime.MemProfileRate = 16 << 10
	var out childOut
	var inLoop atomic.Bool
	var progress atomic.Int64
	stop := make(chan struct{})
	done := make(chan struct{})
	var heapSamples []uint64
	siteMax := map[string]int64{}
	largeSeen := map[string]bool{}
	go func() {
		defer close(done)
		var recs []runtime.MemProfileRecord
		var ms runtime.MemStats
		for {
			select {
			case <-stop:
				return
			default:
			}
			before := progress.Load()
			runtime.GC()
			runtime.GC()
			n, ok := runtime.MemProfile(recs, true)
			for !ok {
				recs = make([]runtime.MemProfileRecord, n+200)
				n, ok = runtime.MemProfile(recs, true)
			}
			var repo, ldb, other int64
			perSite := map[string]int64{}
			for _, r := range recs[:n] {
				// a single object larger than 1 MiB allocated from repository code is a buffer that
				// scales with the document (such objects are always sampled, also when already freed)
				if r.AllocObjects > 0 && r.AllocBytes/r.AllocObjects > 1<<20 {
					if c, site := classify(r.Stack()); c == "repo" {
						largeSeen[fmt.Sprintf("%s avg-object=%d bytes", site, r.AllocBytes/r.AllocObjects)] = true
					}
				}
				inuse := r.InUseBytes()
				if inuse <= 0 {
					continue
				}
				c, site := classify(r.Stack())
				switch c {
				case "repo":
					repo += inuse
					perSite[site] += inuse
				case "leveldb":
					ldb += inuse
				default:
					other += inuse
				}
			}
			runtime.ReadMemStats(&ms)
			out.Samples++
			if inLoop.Load() && progress.Load() > before {
				out.SamplesInLoop++
			}
			heapSamples = append(heapSamples, ms.HeapAlloc)
			if ms.HeapAlloc > out.HeapAllocMax {
				out.HeapAllocMax = ms.HeapAlloc
			}
			if repo > out.MaxRepoInUse {
				out.MaxRepoInUse = repo
			}
			if ldb > out.MaxLevelDBInUse {
				out.MaxLevelDBInUse = ldb
			}
			if other > out.MaxOtherInUse {
				out.MaxOtherInUse = other
			}
			for s, v := range perSite {
				if v > siteMax[s] {
					siteMax[s] = v
				}
			}
			time.Sleep(15 * time.Millisecond)
		}
	}()
	t0 := time.Now()
	var ms0 runtime.MemStats
	runtime.ReadMemStats(&ms0)
	if fi, err := os.Stat(cfg.File); err == nil {
		out.BodyBytes = fi.Size()
	}
	switch cfg.Mode {
	case "reader":
		p := &countProc{}
		inLoop.Store(true)
		go func() {
			for inLoop.Load() {
				progress.Store(p.n.Load())
				time.Sleep(time.Millisecond)
			}
		}()
		_, err := crlreader.StreamingCRLFileReader{}.ReadCRL(p, cfg.File)
		inLoop.Store(false)
		if err != nil {
			out.Err = err.Error()
		}
		out.Entries = p.n.Load()
	case "loader-file":
		inLoop.Store(true)
		go func() {
			for inLoop.Load() {
				progress.Add(1)
				time.Sleep(time.Millisecond)
			}
		}()
		l := &crlloader.FileLoader{FileName: cfg.File, Logger: l2.DebugLogger()}
		if err := l.LoadCRL(filepath.Join(cfg.Dir, "copy.tmp")); err != nil {
			out.Err = err.Error()
		}
		inLoop.Store(false)
	case "loader-url":
		mux := http.NewServeMux()
		mux.HandleFunc("/big.crl", func(w http.ResponseWriter, r *http.Request) { http.ServeFile(w, r, cfg.File) })
		srv := &http.Server{Handler: mux}
		ln, err := listen()
		if err != nil {
			out.Err = err.Error()
			break
		}
		go func() { _ = srv.Serve(ln) }()
		inLoop.Store(true)
		go func() {
			for inLoop.Load() {
				progress.Add(1)
				time.Sleep(time.Millisecond)
			}
		}()
		l := &crlloader.URLLoader{UrlString: "http://" + ln.Addr().String() + "/big.crl", Logger: l2.DebugLogger()}
		if err := l.LoadCRL(filepath.Join(cfg.Dir, "download.tmp")); err != nil {
			out.Err = err.Error()
		}
		inLoop.Store(false)
		_ = srv.Close()
	case "disk-path":
		mux := http.NewServeMux()
		mux.HandleFunc("/big.crl", func(w http.ResponseWriter, r *http.Request) { http.ServeFile(w, r, cfg.File) })
		ln, err := listen()
		if err != nil {
			out.Err = err.Error()
			break
		}
		srv := &http.Server{Handler: mux}
		go func() { _ = srv.Serve(ln) }()
		url := "http://" + ln.Addr().String() + "/big.crl"
		rootDER, _ := os.ReadFile(filepath.Join(cfg.Dir, "root.der"))
		intDER, _ := os.ReadFile(filepath.Join(cfg.Dir, "int.der"))
		keyDER, _ := os.ReadFile(filepath.Join(cfg.Dir, "int.key"))
		root, _ := x509.ParseCertificate(rootDER)
		in, _ := x509.ParseCertificate(intDER)
		anyKey, _ := x509.ParsePKCS8PrivateKey(keyDER)
		key, _ := anyKey.(crypto.Signer)
		ca := &pki.CA{Cert: in, Key: key}
		l2.InstallHooks()
		wd := filepath.Join(cfg.Dir, "wd")
		_ = os.MkdirAll(wd, 0755)
		// another validator instance of the same process uses memory storage (two server blocks with
		// different storage types); it is provisioned first and stays alive, it must not matter
		wdMem := filepath.Join(cfg.Dir, "wd-memory-neighbour")
		_ = os.MkdirAll(wdMem, 0755)
		if neighbour, nerr := l2.Start(l2.Opts{WorkDir: wdMem, Storage: "memory", SigMode: "verify", Fetch: "actively", Logger: l2.DebugLogger()}); nerr == nil {
			defer neighbour.Stop()
		}
		chk, err := l2.Start(l2.Opts{WorkDir: wd, Storage: "disk", SigMode: "verify", Fetch: "actively", Strict: true, Logger: l2.DebugLogger()})
		if err != nil {
			out.Err = err.Error()
			break
		}
		inLoop.Store(true)
		go func() {
			for inLoop.Load() {
				progress.Add(1)
				time.Sleep(time.Millisecond)
			}
		}()
		var listed []string
		lb, _ := os.ReadFile(filepath.Join(cfg.Dir, "listed.json"))
		_ = json.Unmarshal(lb, &listed)
		res := ""
		for i, ls := range listed {
			s, _ := new(big.Int).SetString(ls, 10)
			leaf := ca.Leaf(s, []string{url}, nil)
			rev, err := chk.Ask([]*x509.Certificate{leaf, in, root})
			res += fmt.Sprintf("%d:%v/%v ", i, rev, err != nil)
		}
		unl := ca.Leaf(pki.NextSerial(), []string{url}, nil)
		rev, err := chk.Ask([]*x509.Certificate{unl, in, root})
		res += fmt.Sprintf("unlisted:%v/%v", rev, err != nil)
		out.Lookups = res
		inLoop.Store(false)
		chk.Stop()
		_ = srv.Close()
	}
	out.WallMs = time.Since(t0).Milliseconds()
	var ms1 runtime.MemStats
	runtime.ReadMemStats(&ms1)
	out.TotalAllocDelta = ms1.TotalAlloc - ms0.TotalAlloc
	close(stop)
	<-done
	// median of the second half of the HeapAlloc samples
	if len(heapSamples) > 1 {
		h := append([]uint64(nil), heapSamples[len(heapSamples)/2:]...)
		sort.Slice(h, func(i, j int) bool { return h[i] < h[j] })
		out.HeapAllocMedian2 = h[len(h)/2]
	}
	type kv struct {
		k string
		v int64
	}
	var kvs []kv
	for k, v := range siteMax {
		kvs = append(kvs, kv{k, v})
	}
	sort.Slice(kvs, func(i, j int) bool { return kvs[i].v > kvs[j].v })
	for i, x := range kvs {
		if i >= 5 {
			break
		}
		out.TopRepoSites = append(out.TopRepoSites, fmt.Sprintf("%s=%d", x.k, x.v))
	}
	for k := range largeSeen {
		out.LargeObjects = append(out.LargeObjects, k)
	}
	ob, _ := json.Marshal(out)
	_ = os.WriteFile(filepath.Join(cfg.Dir, "out.json"), ob, 0644)
}

func listen() (net.Listener, error) { return net.Listen("tcp", "127.0.0.1:0") }

func main() {
	if len(os.Args) >= 3 && os.Args[1] == "child" {
		childMain(os.Args[2])
		return
	}
	run := report.New("C17", "exploration")
	run.Rule("cases = component{streaming reader with a counting consumer, URL loader, file loader, full disk path download->parse->store->lookup (also for a list that is rejected only at its end), with a second validator instance on memory storage alive in the same process} x N x encoding{DER, PEM}; each case runs in its own child process with runtime.MemProfileRate=16 KiB while a sampler forces two GCs and reads the heap profile every ~20 ms; in-use bytes are attributed by allocation site: goleveldb/snappy frames = dependency budget, any other record with a repository frame = the repository's own retention; oracle: repository-attributed in-use <= 1 MiB in every sample at every N, goleveldb-attributed <= 96 MiB, median HeapAlloc of the second half of the run <= 64 MiB, listed serials of the big CRL are rejected and an unlisted one accepted on the disk path; non-trivial = case with >= 10 samples taken while the component was making progress; distinct = case descriptor")
	run.Assume("all components run with a debug-level logger that discards its output, so that code which only runs when debug logging is enabled is included", "heap profile reflects the last completed GC (two forced GCs precede every read)", "goleveldb's own bounded caches and write buffers are a trusted dependency budget")
	scratch, _ := report.Scratch("C17")
	bin := os.Getenv("VERIF_ENGINE_BIN")
	if bin == "" {
		bin, _ = os.Executable()
	}
	rng := rand.New(rand.NewSource(run.Seed))
	root := pki.NewRoot(pki.CertOpts{CN: "C17 root"})
	in := root.Issue(pki.CertOpts{CN: "C17 issuing", IsCA: true})
	sizes := []int{60000, 300000}
	if run.Thorough() {
		sizes = []int{10000, 100000, 1000000, 3000000}
	}
	type cs struct {
		cfg  childCfg
		desc string
	}
	var cases []cs
	dirN := 0
	mkdirFor := func(ca *pki.CA) string {
		dirN++
		d := filepath.Join(scratch, fmt.Sprintf("c%d", dirN))
		_ = os.MkdirAll(d, 0755)
		_ = os.WriteFile(filepath.Join(d, "root.der"), root.Cert.Raw, 0644)
		_ = os.WriteFile(filepath.Join(d, "int.der"), ca.Cert.Raw, 0644)
		kb, _ := x509.MarshalPKCS8PrivateKey(ca.Key)
		_ = os.WriteFile(filepath.Join(d, "int.key"), kb, 0600)
		return d
	}
	mkdir := func() string { return mkdirFor(in) }
	for _, n := range sizes {
		entries := gen.Entries(rng, gen.Opts{N: n, SerialWidth: 10, Exts: 1})
		doc := gen.SpecFor(in, entries).Build(in.Key).DER
		derFile := filepath.Join(scratch, fmt.Sprintf("n%d.der", n))
		pemFile := filepath.Join(scratch, fmt.Sprintf("n%d.pem", n))
		_ = os.WriteFile(derFile, doc, 0644)
		_ = os.WriteFile(pemFile, crlgen.PEM(doc, "\n", true), 0644)
		listed := []string{entries[0].Serial.String(), entries[n/2].Serial.String(), entries[n-1].Serial.String()}
		lb, _ := json.Marshal(listed)
		for _, pem := range []bool{false, true} {
			f := derFile
			if pem {
				f = pemFile
			}
			d := mkdir()
			cases = append(cases, cs{childCfg{Mode: "reader", File: f, Dir: d, N: n, PEM: pem}, fmt.Sprintf("reader n=%d pem=%v", n, pem)})
			if n <= 1000000 {
				d = mkdir()
				_ = os.WriteFile(filepath.Join(d, "listed.json"), lb, 0644)
				cases = append(cases, cs{childCfg{Mode: "disk-path", File: f, Dir: d, N: n, PEM: pem}, fmt.Sprintf("disk-path n=%d pem=%v", n, pem)})
			}
		}
		if n == sizes[0] {
			// the same list with an unknown critical crlExtension: it is downloaded and streamed completely and
			// rejected only when the extensions at its end are read; the rejection path has the same bound
			sp := gen.SpecFor(in, entries)
			sp.Exts = append(sp.Exts, crlgen.UnknownCriticalExt())
			rejFile := filepath.Join(scratch, fmt.Sprintf("n%d-rejected.der", n))
			_ = os.WriteFile(rejFile, sp.Build(in.Key).DER, 0644)
			d := mkdir()
			_ = os.WriteFile(filepath.Join(d, "listed.json"), lb, 0644)
			cases = append(cases, cs{childCfg{Mode: "disk-path", File: rejFile, Dir: d, N: n, Rejected: true}, fmt.Sprintf("disk-path n=%d rejected-at-the-end (unknown critical crlExtension)", n)})
		}
		entries = nil
		doc = nil
		runtime.GC()
	}
	// a DER document without any 0x0A byte before its last few hundred bytes: anything that scans
	// for a line end (PEM sniffing) must still not buffer the document
	{
		n := sizes[len(sizes)-1]
		if n > 1000000 {
			n = 1000000
		}
		rsaIn := root.Issue(pki.CertOpts{CN: "C17 RSA issuing", IsCA: true, Key: pki.RSAKey(0)})
		var doc []byte
		for try := 0; try < 60; try++ {
			es := make([]crlgen.Entry, 0, n+try)
			seen := map[string]bool{}
			for len(es) < n+try {
				b := make([]byte, 9)
				for i := range b {
					for {
						b[i] = byte(1 + rng.Intn(126))
						if b[i] != 0x0a {
							break
						}
					}
				}
				if seen[string(b)] {
					continue
				}
				seen[string(b)] = true
				es = append(es, crlgen.Entry{Serial: new(big.Int).SetBytes(b), Date: gen.BaseTime})
			}
			sp := gen.SpecFor(rsaIn, es)
			sp.Exts = [][]byte{crlgen.CRLNumberExt(big.NewInt(int64(7 + try)))}
			d := sp.Build(rsaIn.Key).DER
			first := bytes.IndexByte(d, 0x0a)
			if first < 0 || first > len(d)-2000 {
				doc = d
				listed := []string{es[0].Serial.String(), es[len(es)/2].Serial.String(), es[len(es)-1].Serial.String()}
				lb, _ := json.Marshal(listed)
				f := filepath.Join(scratch, "newline-free.der")
				_ = os.WriteFile(f, doc, 0644)
				cases = append(cases, cs{childCfg{Mode: "reader", File: f, Dir: mkdirFor(rsaIn), N: len(es)}, fmt.Sprintf("reader n=%d der-without-0x0A-byte", len(es))})
				d2 := mkdirFor(rsaIn)
				_ = os.WriteFile(filepath.Join(d2, "listed.json"), lb, 0644)
				cases = append(cases, cs{childCfg{Mode: "disk-path", File: f, Dir: d2, N: len(es)}, fmt.Sprintf("disk-path n=%d der-without-0x0A-byte", len(es))})
				break
			}
		}
		if doc == nil {
			run.Inconclusive("could not build a DER document free of 0x0A bytes")
		}
	}
	// loaders: the body is only copied, never parsed; a large body makes buffering visible
	bodyMB := 128
	if run.Thorough() {
		bodyMB = 768
	}
	bigBody := filepath.Join(scratch, "big.body")
	if f, err := os.Create(bigBody); err == nil {
		_ = f.Truncate(int64(bodyMB) << 20)
		_, _ = f.WriteAt([]byte("end"), int64(bodyMB)<<20-3)
		f.Close()
	}
	cases = append(cases, cs{childCfg{Mode: "loader-url", File: bigBody, Dir: mkdir()}, fmt.Sprintf("loader-url body=%d MB", bodyMB)})
	cases = append(cases, cs{childCfg{Mode: "loader-file", File: bigBody, Dir: mkdir()}, fmt.Sprintf("loader-file body=%d MB", bodyMB)})
	sem := make(chan struct{}, 4)
	results := make([]childOut, len(cases))
	exits := make([]string, len(cases))
	doneCh := make(chan int, len(cases))
	for i, c := range cases {
		go func(i int, c cs) {
			sem <- struct{}{}
			defer func() { <-sem; doneCh <- i }()
			cb, _ := json.Marshal(c.cfg)
			cp := filepath.Join(c.cfg.Dir, "cfg.json")
			_ = os.WriteFile(cp, cb, 0644)
			cmd := exec.Command(bin, "child", cp)
			logf, _ := os.Create(filepath.Join(c.cfg.Dir, "child.log"))
			cmd.Stdout, cmd.Stderr = logf, logf
			err := cmd.Run()
			logf.Close()
			if err != nil {
				lb, _ := os.ReadFile(filepath.Join(c.cfg.Dir, "child.log"))
				exits[i] = err.Error() + ": " + string(lb[:min(len(lb), 500)])
			}
			ob, e := os.ReadFile(filepath.Join(c.cfg.Dir, "out.json"))
			if e == nil {
				_ = json.Unmarshal(ob, &results[i])
			} else if exits[i] == "" {
				exits[i] = "no output"
			}
		}(i, c)
	}
	for range cases {
		<-doneCh
	}
	const mib = 1 << 20
	for i, c := range cases {
		r := results[i]
		run.Eval(1)
		rp := &report.Replay{Case: map[string]any{"case": c.desc, "result": r}}
		comp := c.cfg.Mode
		if exits[i] != "" {
			run.Violation(comp+".child-died", c.desc+": "+exits[i], rp)
			continue
		}
		if r.Err != "" {
			run.Violation(comp+".component-failed", c.desc+": "+r.Err, rp)
			continue
		}
		ok := true
		if r.MaxRepoInUse > 1*mib {
			ok = false
			run.Violation(comp+".repository-retention-grows", fmt.Sprintf("%s: %d bytes in use attributed to repository allocation sites (bound 1 MiB); top sites: %v", c.desc, r.MaxRepoInUse, r.TopRepoSites), rp)
		}
		if len(r.LargeObjects) > 0 && !strings.HasPrefix(comp, "loader") {
			ok = false
			run.Violation(comp+".document-sized-buffer", fmt.Sprintf("%s: repository code allocated single objects larger than 1 MiB: %v", c.desc, r.LargeObjects), rp)
		}
		if r.MaxLevelDBInUse > 96*mib {
			ok = false
			run.Violation(comp+".leveldb-budget-exceeded", fmt.Sprintf("%s: %d bytes attributed to goleveldb (budget 96 MiB)", c.desc, r.MaxLevelDBInUse), rp)
		}
		if r.HeapAllocMedian2 > 64*mib {
			ok = false
			run.Violation(comp+".heap-sanity-cap", fmt.Sprintf("%s: median HeapAlloc of the second half %d bytes (cap 64 MiB)", c.desc, r.HeapAllocMedian2), rp)
		}
		if comp == "reader" && r.Entries != int64(c.cfg.N) {
			ok = false
			run.Violation(comp+".entry-count", fmt.Sprintf("%s: consumer received %d of %d entries", c.desc, r.Entries, c.cfg.N), rp)
		}
		if comp == "disk-path" && c.cfg.Rejected {
			if r.Lookups != "0:false/true 1:false/true 2:false/true unlisted:false/true" {
				ok = false
				run.Violation(comp+".rejected-list-lookups-wrong", c.desc+": strict lookups for a list that must be rejected: "+r.Lookups, rp)
			}
		} else if comp == "disk-path" && r.Lookups != "0:true/false 1:true/false 2:true/false unlisted:false/false" {
			ok = false
			run.Violation(comp+".lookups-wrong", c.desc+": lookups after the load: "+r.Lookups, rp)
		}
		if strings.HasPrefix(comp, "loader") {
			// deterministic for the loaders: everything allocated while copying the body
			if r.TotalAllocDelta > 16*mib {
				ok = false
				run.Violation(comp+".allocation-proportional-to-body", fmt.Sprintf("%s: %d bytes allocated while copying a %d byte body (bound 16 MiB)", c.desc, r.TotalAllocDelta, r.BodyBytes), rp)
			}
			if ok {
				run.NonTrivial(c.desc)
			}
			run.Sample(map[string]any{"case": c.desc, "total_alloc_delta_bytes": r.TotalAllocDelta, "body_bytes": r.BodyBytes, "wall_ms": r.WallMs})
			continue
		}
		if ok && r.SamplesInLoop >= 10 {
			run.NonTrivial(c.desc)
		} else if ok {
			run.Inconclusive(fmt.Sprintf("%s: only %d samples taken while the component was progressing", c.desc, r.SamplesInLoop))
		}
		run.Sample(map[string]any{"case": c.desc, "samples": r.Samples, "samples_in_loop": r.SamplesInLoop, "max_repo_inuse_bytes": r.MaxRepoInUse, "max_leveldb_inuse_bytes": r.MaxLevelDBInUse, "heapalloc_median_2nd_half": r.HeapAllocMedian2, "wall_ms": r.WallMs, "top_repo_sites": r.TopRepoSites})
	}
	run.Finish(4)
}
