module verif/harness

go 1.22

require (
	github.com/anishathalye/porcupine v1.3.0
	github.com/gr33nbl00d/caddy-revocation-validator v0.0.0
)

require (
	go.uber.org/multierr v1.11.0 // indirect
	go.uber.org/zap v1.27.0 // indirect
	golang.org/x/crypto v0.23.0 // indirect
)

replace github.com/gr33nbl00d/caddy-revocation-validator => /repo
